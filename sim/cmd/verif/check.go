package main

import (
	"bytes"
	"encoding/json"
	"fmt"
	"os"
	"os/exec"
	"path/filepath"
	"regexp"
	"runtime"
	"sort"
	"strings"
	"sync"
	"syscall"
	"time"

	"verifsim/gen"
	"verifsim/proto"
	"verifsim/sdl"
)

type famShare struct {
	Family string
	Share  float64
}

// propCfg is the per-property configuration of the checks.
type propCfg struct {
	ID       string
	Engine   string
	Level    string
	Families []famShare
	// quick tier
	QProgs, QK int
	// thorough tier: batches of TProgs programs until the budget is spent
	TProgs, TK int
	Race       bool
	Rule       string
	Technique  string
	Real, Stub []string
	Assumes    []string
	Params     map[string]float64
	TParams    map[string]float64
}

var realCommon = []string{"app", "container/factory", "container/support (all three registries, decorated pass-through)", "container/processors", "component_definition", "configure + ViperBinder + loaders", "util/*", "syslog (silent logger installed through syslog.SetLogger)"}
var stubCommon = []string{"user components, post-processors, runners, closers, loaders (generated Go source calling back into the simulator)"}

func props() map[string]*propCfg {
	wire := []famShare{{gen.FamWire, 1}}
	m := map[string]*propCfg{
		"C01": {ID: "C01", Engine: "startsim", Level: "exploration", Families: []famShare{{gen.FamWire, 0.5}, {gen.FamSubst, 0.5}}, QProgs: 480, QK: 8, TProgs: 480, TK: 48,
			Rule: "programs are generated from VERIF_SEED (dependency graphs with fan-in, cycles, slices, by-name/qualified edges; half of them with substituting post-processors); each is started under K schedules (canonical, reversed, random registration order x registry enumeration orders x property-group order x scan-phase interleaving). A run is non-trivial if some object is held by >= 2 points or an early reference was produced (a cycle was entered); distinct = distinct (program shape, registry path signature) pairs among those."},
		"C02": {ID: "C02", Engine: "startsim", Level: "exploration", Families: []famShare{{gen.FamWire, 0.8}, {gen.FamSubst, 0.2}}, QProgs: 560, QK: 8, TProgs: 480, TK: 48,
			Rule: "generated dependency graphs without substitution (structured corpora first: all digraphs over <= 3 pointer-wired components, ring rotations; then random graphs); K schedules each. Non-trivial = an early reference was produced (a cycle was entered) or the program has a point whose only candidate is its holder; distinct = distinct (program shape, registry path signature)."},
		"C06": {ID: "C06", Engine: "startsim", Level: "exploration", Families: []famShare{{gen.FamWire, 0.8}, {gen.FamEmbed, 0.12}, {gen.FamWrapName, 0.08}}, QProgs: 560, QK: 8, TProgs: 480, TK: 48,
			Rule: "generated provider/consumer populations; K schedules each; non-trivial = some point has >= 2 compatible candidates; distinct = distinct (program shape, registry path signature)."},
		"C07": {ID: "C07", Engine: "startsim", Level: "exploration", Families: []famShare{{gen.FamByName, 0.55}, {gen.FamWire, 0.35}, {gen.FamWrapName, 0.1}}, QProgs: 560, QK: 8, TProgs: 480, TK: 48,
			Rule: "generated programs with by-name points (custom names, default names, absent names, names of incompatible type, optional and required, rare duplicate registrations); K schedules each; non-trivial = the program has a by-name point; distinct = distinct (program shape, registry path signature)."},
		"C08": {ID: "C08", Engine: "startsim", Level: "exploration", Families: wire, QProgs: 520, QK: 8, TProgs: 480, TK: 48,
			Rule: "generated populations with qualifier / Primary / naming attributes and holders mixing qualified, unqualified, optional and required points; K schedules each; non-trivial = some point has >= 2 candidates; distinct = distinct (program shape, registry path signature)."},
		"C10": {ID: "C10", Engine: "startsim", Level: "exploration", Families: []famShare{{gen.FamWire, 0.5}, {gen.FamByName, 0.2}, {gen.FamSubst, 0.3}}, QProgs: 720, QK: 10, TProgs: 480, TK: 48,
			Rule: "each generated program is started under K schedules and the outcomes / wirings are compared across the sweep (metamorphic); non-trivial = some point has >= 2 candidates; distinct = distinct (program shape, registry path signature)."},
	}
	for _, p := range m {
		if p.Engine == "startsim" {
			p.Real, p.Stub = realCommon, stubCommon
			p.Technique = "deterministic simulation: whole App.Run inside a testing/synctest bubble under a seeded serial scheduler with order-permuting registry decorators; seeded search over generated programs x schedules"
		}
	}
	moreProps(m)
	return m
}

// ---- batch building ----

type batch struct {
	dir    string
	bin    string
	progs  []*sdl.Program
	buildS float64
	// yieldPoints: number of yield points inserted by the linsim instrumenter
	yieldPoints int
}

func mix(a, b uint64) uint64 {
	x := a ^ (b + 0x9e3779b97f4a7c15 + (a << 6) + (a >> 2))
	x ^= x >> 33
	x *= 0xff51afd7ed558ccd
	x ^= x >> 33
	return x
}

func strHash(s string) uint64 {
	var h uint64 = 1469598103934665603
	for i := 0; i < len(s); i++ {
		h ^= uint64(s[i])
		h *= 1099511628211
	}
	return h
}

func genBatch(pc *propCfg, seed uint64, batchNo, n int, tier string) []*sdl.Program {
	var progs []*sdl.Program
	corp := corpus(pc, batchNo, tier)
	for i, p := range corp {
		if len(progs) >= n {
			break
		}
		p.ID = fmt.Sprintf("P%d", i)
		renumber(p)
		progs = append(progs, p)
	}
	i := len(progs)
	for len(progs) < n {
		// family by share, deterministically from the index
		x := float64(mix(seed, uint64(i)*7919+uint64(batchNo))%10000) / 10000
		fam := pc.Families[len(pc.Families)-1].Family
		acc := 0.0
		for _, f := range pc.Families {
			acc += f.Share
			if x < acc {
				fam = f.Family
				break
			}
		}
		ps := mix(mix(seed, strHash(pc.ID)), uint64(batchNo)<<20|uint64(i))
		if tier == "thorough" && fam == gen.FamWire && i%48 == 47 {
			fam = gen.FamLarge // the large-graph slice of the thorough tier
		}
		if fam == gen.FamEmbed {
			a, b := gen.GenerateTwins(ps, fmt.Sprintf("P%d", i), fmt.Sprintf("P%d", i+1))
			progs = append(progs, a, b)
			i += 2
			continue
		}
		q := gen.Generate(ps, fmt.Sprintf("P%d", i), fam)
		if pc.ID == "C10" {
			// C10 keeps to what its two known findings describe (DESIGN 13.1, "not taken to C10"):
			// no decorator substitutes, no look-ups from PostProcessBeforeInstantiation
			for _, pr := range q.Procs {
				var keep []*sdl.Rule
				for _, ru := range pr.Rules {
					if ru.Action == "lookup" && ru.At == sdl.CbBeforeInst {
						continue
					}
					if sdl.IsDeco(ru.SubType) {
						ru.SubType = ""
					}
					keep = append(keep, ru)
				}
				pr.Rules = keep
			}
		}
		progs = append(progs, q)
		i++
	}
	return progs
}

// renumber rewrites type names of a corpus program to carry its id prefix.
func renumber(p *sdl.Program) {
	b, _ := json.Marshal(p)
	s := strings.ReplaceAll(string(b), "PX", p.ID)
	var q sdl.Program
	_ = json.Unmarshal([]byte(s), &q)
	*p = q
}

const workerMain = `package worker

import (
	"testing"

	"verifbatch/progs"
	"verifsim/engine"
)

func TestWorker(t *testing.T) {
	engine.WorkerMain(t, &engine.Binding{Types: progs.Types, Ifaces: progs.Ifaces})
}
`

// linTargets are the files that get a yield point before every statement (linsim).
var linTargets = map[string]bool{"util/sync2/map.go": true, "util/list/concurrent_set.go": true, "util/list/generic_concurrent_set.go": true,
	"container/support/component_definition_registry.go": true}

// copyLin copies util/sync2 and util/list from the current working tree of /repo into the
// batch module (lin/sync2, lin/list) and instruments the target files.
func copyLin(dir string) (int, error) {
	points := 0
	// container/support is copied too (the definition registry the scanner goroutines share),
	// with its imports of the two utility packages redirected to the instrumented copies
	for _, pkg := range []string{"util/sync2", "util/list", "container/support"} {
		ents, err := os.ReadDir(filepath.Join(repoDir, pkg))
		if err != nil {
			return 0, err
		}
		for _, e := range ents {
			if e.IsDir() || !strings.HasSuffix(e.Name(), ".go") || strings.HasSuffix(e.Name(), "_test.go") {
				continue
			}
			src, err := os.ReadFile(filepath.Join(repoDir, pkg, e.Name()))
			if err != nil {
				return 0, err
			}
			if pkg == "container/support" {
				src = []byte(strings.NewReplacer(`"github.com/go-kid/ioc/util/sync2"`, `"verifbatch/lin/sync2"`,
					`"github.com/go-kid/ioc/util/list"`, `"verifbatch/lin/list"`).Replace(string(src)))
			}
			if linTargets[pkg+"/"+e.Name()] {
				out, n, err := gen.Instrument(e.Name(), src)
				if err != nil {
					return 0, fmt.Errorf("instrument %s: %v", e.Name(), err)
				}
				src = out
				points += n
			}
			writeFile(filepath.Join(dir, "lin", filepath.Base(pkg), e.Name()), string(src))
		}
	}
	return points, nil
}

const workerMainLin = `package worker

import (
	"testing"

	linlist "verifbatch/lin/list"
	linsupport "verifbatch/lin/support"
	linsync2 "verifbatch/lin/sync2"
	"verifbatch/progs"
	"verifsim/engine"
)

func TestWorker(t *testing.T) {
	engine.WorkerMain(t, &engine.Binding{Types: progs.Types, Ifaces: progs.Ifaces, Lin: &engine.LinBinding{
		NewMap:  func() engine.LinMap { return linsync2.New[string, int]() },
		NewSet:  func() engine.LinSet { return linlist.NewConcurrentSets() },
		NewGSet: func() engine.LinSet { return linlist.NewGenericConcurrentSets[string]() },
		NewDefReg: func() engine.LinDefReg { return linsupport.DefaultDefinitionRegistry() },
	}})
}
`

func buildBatch(progs []*sdl.Program, race bool, tag string) (*batch, error) {
	return buildBatchX(progs, race, false, tag)
}

// trimBuildCache: every batch of generated programs adds to the Go build cache, which Go itself
// only trims by age; when the disk runs low the cache is dropped (everything in it can be rebuilt).
func trimBuildCache() {
	var st syscall.Statfs_t
	if syscall.Statfs(os.TempDir(), &st) != nil {
		return
	}
	if free := st.Bavail * uint64(st.Bsize); free < 12<<30 {
		cmd := exec.Command(goBin(), "clean", "-cache")
		cmd.Env = append(os.Environ(), "GOFLAGS=-mod=mod", "GOTOOLCHAIN=local")
		_ = cmd.Run()
	}
}

func buildBatchX(progs []*sdl.Program, race, lin bool, tag string) (*batch, error) {
	trimBuildCache()
	dir, err := os.MkdirTemp("", "verif-"+tag+"-")
	if err != nil {
		return nil, err
	}
	b := &batch{dir: dir, progs: progs}
	gomod := fmt.Sprintf(`module verifbatch

go 1.26.8

require (
	github.com/go-kid/ioc v0.0.0
	verifsim v0.0.0
)

replace github.com/go-kid/ioc => %s

replace verifsim => %s
`, repoDir, filepath.Join(verifDir, "sim"))
	writeFile(filepath.Join(dir, "go.mod"), gomod)
	sum, _ := os.ReadFile(filepath.Join(verifDir, "sim", "go.sum"))
	writeFile(filepath.Join(dir, "go.sum"), string(sum))
	writeFile(filepath.Join(dir, "progs", "progs.go"), gen.Emit(progs))
	writeFile(filepath.Join(dir, "ifc", "ifc.go"), gen.EmitIfc(progs))
	if alt := gen.EmitAlt(progs); alt != "" {
		writeFile(filepath.Join(dir, "alt", "progs", "progs.go"), alt)
	}
	if lin {
		n, err := copyLin(dir)
		if err != nil {
			return b, fmt.Errorf("linsim instrumentation failed: %v", err)
		}
		b.yieldPoints = n
		writeFile(filepath.Join(dir, "worker", "main_test.go"), workerMainLin)
	} else {
		writeFile(filepath.Join(dir, "worker", "main_test.go"), workerMain)
	}
	writeJSONFile(filepath.Join(dir, "batch.json"), progs)
	b.bin = filepath.Join(dir, "worker.test")
	args := []string{"test", "-c", "-vet=off", "-tags", "verif", "-o", b.bin}
	if race {
		args = append(args, "-race")
	}
	args = append(args, "./worker")
	t0 := nowS()
	cmd := exec.Command(goBin(), args...)
	cmd.Dir = dir
	cmd.Env = goEnv()
	var out bytes.Buffer
	cmd.Stdout, cmd.Stderr = &out, &out
	if err := cmd.Run(); err != nil {
		return b, fmt.Errorf("build failed: %v\n%s", err, tail(out.String(), 60))
	}
	b.buildS = nowS() - t0
	return b, nil
}

func tail(s string, n int) string {
	lines := strings.Split(s, "\n")
	if len(lines) > n {
		lines = lines[len(lines)-n:]
	}
	return strings.Join(lines, "\n")
}

func (b *batch) cleanup() {
	if b != nil && b.dir != "" && os.Getenv("VERIF_KEEP") == "" {
		os.RemoveAll(b.dir)
	}
}

// stallLimitS: a worker that announces no new program for this long (wall time) is killed. One
// program takes well under a second; 240 s leaves room for a machine that runs other batches too.
const stallLimitS = 240

// ---- running workers ----

type workerOut struct {
	res    *proto.Result
	err    string // process-level trouble
	killed bool
	last   string // last progress line
	race   string // race detector output (racesim)
	idx    int
}

func runWorkers(b *batch, jobs []*proto.Job, extraEnv []string, stallS float64) []*workerOut {
	outs := make([]*workerOut, len(jobs))
	var wg sync.WaitGroup
	for i, job := range jobs {
		i, job := i, job
		wg.Add(1)
		go func() {
			defer wg.Done()
			outs[i] = runWorker(b, i, job, extraEnv, stallS)
		}()
	}
	wg.Wait()
	return outs
}

func runWorker(b *batch, i int, job *proto.Job, extraEnv []string, stallS float64) *workerOut {
	wo := &workerOut{idx: i}
	jobPath := filepath.Join(b.dir, fmt.Sprintf("job-%d.json", i))
	job.Out = filepath.Join(b.dir, fmt.Sprintf("out-%d.json", i))
	job.Progress = filepath.Join(b.dir, fmt.Sprintf("progress-%d.txt", i))
	job.TmpDir = filepath.Join(b.dir, fmt.Sprintf("tmp-%d", i))
	os.MkdirAll(job.TmpDir, 0o755)
	os.Remove(job.Out)
	os.Remove(job.Progress)
	writeJSONFile(jobPath, job)
	cmd := exec.Command(b.bin, "-test.run=^TestWorker$", "-test.timeout=0", "-test.count=1")
	cmd.Dir = b.dir
	cmd.Env = append(os.Environ(), "VERIF_JOB="+jobPath)
	cmd.Env = append(cmd.Env, extraEnv...)
	var out bytes.Buffer
	cmd.Stdout, cmd.Stderr = &out, &out
	if err := cmd.Start(); err != nil {
		wo.err = "start: " + err.Error()
		return wo
	}
	done := make(chan error, 1)
	go func() { done <- cmd.Wait() }()
	lastChange := time.Now()
	var lastSize int64 = -1
	tick := time.NewTicker(500 * time.Millisecond)
	defer tick.Stop()
	var werr error
loop:
	for {
		select {
		case werr = <-done:
			break loop
		case <-tick.C:
			if st, err := os.Stat(job.Progress); err == nil && st.Size() != lastSize {
				lastSize = st.Size()
				lastChange = time.Now()
			}
			if time.Since(lastChange).Seconds() > stallS {
				// ask the Go runtime for the stacks of all goroutines first (they tell a hang
				// inside the container from one inside the harness), then kill
				_ = cmd.Process.Signal(syscall.SIGQUIT)
				select {
				case werr = <-done:
				case <-time.After(10 * time.Second):
					cmd.Process.Kill()
					werr = <-done
				}
				wo.killed = true
				wo.err = "goroutines of the stalled worker:\n" + stallStacks(out.String())
				break loop
			}
		}
	}
	if pb, err := os.ReadFile(job.Progress); err == nil {
		lines := strings.Split(strings.TrimSpace(string(pb)), "\n")
		wo.last = lines[len(lines)-1]
	}
	var res proto.Result
	if rb, err := os.ReadFile(job.Out); err == nil && json.Unmarshal(rb, &res) == nil {
		wo.res = &res
	} else if !wo.killed {
		wo.err = fmt.Sprintf("worker %d produced no result (exit: %v)\n%s", i, werr, tail(out.String(), 40))
	}
	if strings.Contains(out.String(), "WARNING: DATA RACE") {
		wo.race = out.String()
	}
	return wo
}

// ---- known findings ----

type knownFinding struct {
	Property string `json:"property"`
	Status   string `json:"status"` // "known" | "fixed"
	Match    struct {
		Oracle   string `json:"oracle"`
		KeyRe    string `json:"key_re,omitempty"`
		DetailRe string `json:"detail_re,omitempty"`
	} `json:"match"`
	Commit string `json:"commit,omitempty"`
	Text   string `json:"text"`
}

func loadKnown() []knownFinding {
	var ks []knownFinding
	b, err := os.ReadFile(filepath.Join(verifDir, "known_findings.json"))
	if err != nil {
		return nil
	}
	if err := json.Unmarshal(b, &ks); err != nil {
		die(2, "known_findings.json: %v", err)
	}
	return ks
}

func matchKnown(ks []knownFinding, f *proto.Finding) *knownFinding {
	for i := range ks {
		k := &ks[i]
		if k.Status != "known" || k.Property != f.Property || k.Match.Oracle != f.Oracle {
			continue
		}
		if k.Match.KeyRe != "" {
			if ok, _ := regexp.MatchString(k.Match.KeyRe, f.Key); !ok {
				continue
			}
		}
		if k.Match.DetailRe != "" {
			if ok, _ := regexp.MatchString(k.Match.DetailRe, f.Detail); !ok {
				continue
			}
		}
		return k
	}
	return nil
}

// ---- the check ----

type agg struct {
	programs, runs, steps, picks, nontrivial, inconcl int
	distinct                                          map[uint64]bool
	pathSigs                                          map[uint64]bool
	outcomes, armed, fired, probes                    map[string]int
	samples                                           []any
	findings                                          []proto.Finding
	workerWall                                        float64
	yieldPoints                                       int
	detNote                                           string
}

func newAgg() *agg {
	return &agg{distinct: map[uint64]bool{}, pathSigs: map[uint64]bool{}, outcomes: map[string]int{}, armed: map[string]int{}, fired: map[string]int{}, probes: map[string]int{}}
}

func (a *agg) add(r *proto.Result) {
	s := r.Stats
	a.programs += s.Programs
	a.runs += s.Runs
	a.steps += s.Steps
	a.picks += s.Picks
	a.nontrivial += s.NonTrivial
	a.inconcl += s.Inconcl
	for _, d := range s.Distinct {
		a.distinct[d] = true
	}
	for _, d := range s.PathSigs {
		a.pathSigs[d] = true
	}
	for k, v := range s.Outcomes {
		a.outcomes[k] += v
	}
	for k, v := range s.FaultArmed {
		a.armed[k] += v
	}
	for k, v := range s.FaultFired {
		a.fired[k] += v
	}
	for k, v := range s.Probes {
		a.probes[k] += v
	}
	if len(a.samples) < 4 {
		for _, x := range s.Samples {
			if len(a.samples) < 4 {
				a.samples = append(a.samples, x)
			}
		}
	}
	a.findings = append(a.findings, r.Findings...)
	a.workerWall += s.WallS
}

func cmdCheck(id, tier string, seed uint64) int {
	pc := props()[id]
	if pc == nil {
		die(2, "unknown or unclaimed property %q", id)
	}
	fmt.Printf("verif check %s tier=%s VERIF_SEED=%d engine=%s\n", id, tier, seed, pc.Engine)
	t0 := nowS()
	a := newAgg()
	workers := envInt("VERIF_WORKERS", runtime.NumCPU())
	budget := float64(envInt("VERIF_BUDGET_S", 1200))
	nProgs, k := pc.QProgs, pc.QK
	if tier == "thorough" {
		nProgs, k = pc.TProgs, pc.TK
	}
	trouble := ""
	var buildS float64
	detNote := ""
	if tier == "thorough" && pc.Engine == "startsim" {
		// determinism first: the same runs in separate processes under GOMAXPROCS 1/4/16
		progs := genBatch(pc, seed, 1<<20, 24, "quick")
		bad, procs, runs, tr := determinismRun(progs, pc.ID, seed, 9, 4)
		if tr != "" {
			fmt.Println(tr)
			die(2, "determinism self-test could not run (not a verdict)")
		}
		if bad != 0 {
			die(2, "determinism self-test failed: %d of %d processes diverged (not a verdict)", bad, procs)
		}
		detNote = fmt.Sprintf("%d processes x %d runs bit-identical under GOMAXPROCS 1/4/16", procs, runs)
		fmt.Println("determinism: " + detNote)
	}
	batches := 0
	seedsUsed := []uint64{}
	type phase struct {
		name            string
		race, lin, prog bool
	}
	phases := []phase{{"", pc.Race, false, pc.Engine == "startsim"}}
	if pc.Engine == "racesim+linsim" {
		phases = []phase{{"racesim", true, false, true}, {"linsim", false, true, false}}
	}
	yieldPoints := 0
	// thorough tier, single-phase engines: the next batch is generated and compiled while the
	// workers run the current one (compilation, not simulation, is the bottleneck)
	type built struct {
		b   *batch
		err error
	}
	var prefetch chan built
	startBuild := func(batchNo int, ph phase) chan built {
		ch := make(chan built, 1)
		go func() {
			var progs []*sdl.Program
			if ph.prog {
				progs = genBatch(pc, seed, batchNo, nProgs, tier)
			}
			b, err := buildBatchX(progs, ph.race, ph.lin, id)
			ch <- built{b, err}
		}()
		return ch
	}
	defer func() {
		if prefetch != nil {
			if x := <-prefetch; x.b != nil {
				x.b.cleanup()
			}
		}
	}()
batches:
	for batchNo := 0; ; batchNo++ {
		for phi, ph := range phases {
			var cur chan built
			if prefetch != nil && len(phases) == 1 {
				cur, prefetch = prefetch, nil
			} else {
				cur = startBuild(batchNo, ph)
			}
			x := <-cur
			b, err := x.b, x.err
			if tier == "thorough" && len(phases) == 1 && err == nil && nowS()-t0 < budget-45 {
				prefetch = startBuild(batchNo+1, ph)
			}
			if err != nil {
				b.cleanup()
				fmt.Println(err)
				die(2, "build trouble (not a verdict)")
			}
			buildS += b.buildS
			yieldPoints = max(yieldPoints, b.yieldPoints)
			batches++
			seedsUsed = append(seedsUsed, mix(seed, uint64(batchNo)))
			remain := budget - (nowS() - t0)
			if len(phases) > 1 {
				remain = remain / float64(len(phases)-phi)
			}
			var jobs []*proto.Job
			if ph.prog {
				jobs = makeJobs(pc, b, tier, seed, batchNo, k, workers, remain)
			} else {
				jobs = makeOtherJobs(pc, b, ph.name, tier, seed, batchNo, workers, remain)
			}
			env := workerEnv(ph.race, b)
			for attempt := 0; attempt < 4 && len(jobs) != 0; attempt++ {
				outs := runWorkers(b, jobs, env, stallLimitS)
				var retry []*proto.Job
				for _, wo := range outs {
					if wo.res != nil {
						a.add(wo.res)
						if wo.res.Error != "" {
							trouble += fmt.Sprintf("worker %d: %s\n", wo.idx, wo.res.Error)
						}
					}
					if wo.race != "" {
						fs, tr, rest := attributeRace(pc, b, wo, jobs[wo.idx])
						a.findings = append(a.findings, fs...)
						trouble += tr
						if rest != nil && len(rest.ProgIdx) != 0 {
							retry = append(retry, rest)
						}
						continue
					}
					if wo.err != "" || wo.killed {
						f, tr := attributeCrash(pc, b, wo, jobs[wo.idx])
						if f != nil {
							a.findings = append(a.findings, *f)
						} else {
							trouble += tr
						}
					}
				}
				jobs = retry
			}
			b.cleanup()
		}
		if tier != "thorough" || nowS()-t0 > budget-30 || trouble != "" {
			break batches
		}
		unknown := 0
		kf := loadKnown()
		for i := range a.findings {
			if matchKnown(kf, &a.findings[i]) == nil {
				unknown++
			}
		}
		if unknown > 40 {
			break batches // enough to report; known findings do not stop the exploration
		}
		if len(a.findings) > 400 {
			// keep memory bounded: known findings beyond a few hundred add nothing
			keep := a.findings[:0]
			n := 0
			for i := range a.findings {
				if matchKnown(kf, &a.findings[i]) == nil || n < 50 {
					keep = append(keep, a.findings[i])
					n++
				}
			}
			a.findings = keep
		}
	}
	a.yieldPoints = yieldPoints
	a.detNote = detNote
	// report findings
	known := loadKnown()
	os.MkdirAll(filepath.Join(verifDir, "replays"), 0o755)
	if old, _ := filepath.Glob(filepath.Join(verifDir, "replays", id+"-*.json")); len(old) != 0 {
		for _, f := range old {
			os.Remove(f)
		}
	}
	violations := 0
	knownHits := map[string]int{}
	reported := map[string]bool{}
	sort.SliceStable(a.findings, func(i, j int) bool {
		return a.findings[i].Oracle+a.findings[i].Key < a.findings[j].Oracle+a.findings[j].Key
	})
	nrep := 0
	for i := range a.findings {
		f := &a.findings[i]
		if f.Property != id {
			continue
		}
		if kf := matchKnown(known, f); kf != nil {
			knownHits[kf.Text]++
			continue
		}
		violations++
		sig := f.Oracle
		if reported[sig] && nrep >= 6 {
			continue // one replay file per oracle is enough once several were written
		}
		reported[sig] = true
		nrep++
		path := filepath.Join(verifDir, "replays", fmt.Sprintf("%s-%d-%d.json", id, seed, nrep))
		rf := map[string]any{
			"property": f.Property, "oracle": f.Oracle, "key": f.Key, "detail": f.Detail, "observed": f.Observed,
			"engine": pc.Engine, "tree": treeIdentity(), "verif_seed": seed, "tier": tier,
			"case": f.Case, "reproduced_in_process": f.Reproduced,
			"minimised": map[string]int{"picks_before": f.PicksBefore, "picks_after": f.PicksAfter, "instances_before": f.InstBefore, "instances_after": f.InstAfter},
		}
		writeJSONFile(path, rf)
		// fresh-process replay
		if f.Case != nil && os.Getenv("VERIF_NO_FRESH_REPLAY") == "" && nrep <= 3 {
			ok, _ := replayFile(path, true)
			rf["reproducible"] = ok
			writeJSONFile(path, rf)
			// type-level reduction (needs recompilation, hence done here and not in the worker)
			if ok && nrep <= 2 && os.Getenv("VERIF_NO_TYPE_SHRINK") == "" {
				budget := 90.0
				if tier == "thorough" {
					budget = 240
				}
				if red, what := shrinkTypes(f.Case, f.Property, f.Oracle, budget); red != nil {
					tb, fb := countFields(f.Case.Prog)
					ta, fa := countFields(red.Prog)
					rf["case"] = red
					rf["type_level_reductions"] = what
					rf["minimised"] = map[string]int{"picks_before": f.PicksBefore, "picks_after": f.PicksAfter, "instances_before": f.InstBefore, "instances_after": len(red.Prog.Instances),
						"types_before": tb, "types_after": ta, "fields_before": fb, "fields_after": fa}
					writeJSONFile(path, rf)
					if ok2, _ := replayFile(path, true); !ok2 {
						// the reduced case must reproduce in a fresh process, otherwise the unreduced one stays
						rf["case"] = f.Case
						delete(rf, "type_level_reductions")
						rf["minimised"] = map[string]int{"picks_before": f.PicksBefore, "picks_after": f.PicksAfter, "instances_before": f.InstBefore, "instances_after": f.InstAfter}
						writeJSONFile(path, rf)
					}
				}
			}
		}
		fmt.Printf("  %s/%s key=%q: %s\n", f.Property, f.Oracle, f.Key, clip(f.Detail, 600))
		fmt.Printf("VIOLATION property=%s replay=%s\n", id, path)
	}
	for _, txt := range sortedKeys(knownHits) {
		fmt.Printf("KNOWN-FINDING: property=%s %s (matched %d time(s))\n", id, txt, knownHits[txt])
	}
	wall := nowS() - t0
	ev := evidence(pc, tier, seed, a, wall, buildS, batches, seedsUsed, violations, knownHits, trouble)
	writeJSONFile(filepath.Join(verifDir, "evidence", id+".json"), ev)
	fmt.Printf("%s: %d programs, %d simulated runs (%d non-trivial, %d distinct), %d scheduler steps, %.1fs wall (%.1fs build), outcomes %v, violations %d, known %d\n",
		id, a.programs, a.runs, a.nontrivial, len(a.distinct), a.steps, wall, buildS, a.outcomes, violations, len(knownHits))
	if trouble != "" {
		fmt.Fprintf(os.Stderr, "TROUBLE (exit 2, not a verdict):\n%s", trouble)
		if violations == 0 {
			return 2
		}
	}
	if violations > 0 {
		return 1
	}
	if msg := selfAssess(pc, tier, a); msg != "" {
		fmt.Fprintf(os.Stderr, "self-assessment: %s\n", msg)
		if tier == "thorough" {
			return 2
		}
	}
	return 0
}

func clip(s string, n int) string {
	if len(s) > n {
		return s[:n] + "…"
	}
	return s
}

func sortedKeys[V any](m map[string]V) []string {
	ks := make([]string, 0, len(m))
	for k := range m {
		ks = append(ks, k)
	}
	sort.Strings(ks)
	return ks
}

func makeJobs(pc *propCfg, b *batch, tier string, seed uint64, batchNo, k, workers int, remainS float64) []*proto.Job {
	n := len(b.progs)
	if workers > n {
		workers = n
	}
	if workers < 1 {
		workers = 1
	}
	jobs := make([]*proto.Job, workers)
	for w := range jobs {
		jobs[w] = &proto.Job{Mode: "check", Property: pc.ID, Tier: tier, Batch: filepath.Join(b.dir, "batch.json"), K: k, Seed: mix(seed, uint64(batchNo)),
			MinimS: 15, MaxFind: 4, Params: pc.Params}
		if tier == "thorough" {
			jobs[w].MinimS = 60
			if pc.TParams != nil {
				jobs[w].Params = pc.TParams
			}
		}
	}
	for i := 0; i < n; i++ {
		j := jobs[i%workers]
		if pc.ID == "C20" && workers >= 2 {
			// racesim: one worker process sees programs of one parity only (programs with an odd
			// index run with the library's own logger, which a process installs once and for all)
			half := workers / 2
			j = jobs[(i%2)*half+(i/2)%half]
		}
		j.ProgIdx = append(j.ProgIdx, i)
	}
	var used []*proto.Job
	for _, j := range jobs {
		if len(j.ProgIdx) != 0 {
			used = append(used, j)
		}
	}
	return used
}

func workerEnv(race bool, b *batch) []string {
	if race {
		return []string{"GORACE=halt_on_error=1 exitcode=66 history_size=4"}
	}
	return nil
}

func evidence(pc *propCfg, tier string, seed uint64, a *agg, wall, buildS float64, batches int, seeds []uint64, violations int, knownHits map[string]int, trouble string) map[string]any {
	runsPerHour := 0.0
	if wall > 0 {
		runsPerHour = float64(a.runs) / wall * 3600
	}
	samples := a.samples
	if len(samples) == 0 {
		samples = []any{"no successful run was sampled"}
	}
	cov := map[string]any{
		"evaluations":                       a.runs,
		"distinct_nontrivial":               len(a.distinct),
		"rule":                              pc.Rule,
		"samples":                           samples,
		"programs":                          a.programs,
		"nontrivial_runs":                   a.nontrivial,
		"distinct_registry_path_signatures": len(a.pathSigs),
		"scheduler_steps":                   a.steps,
		"decisions_drawn":                   a.picks,
		"outcomes":                          a.outcomes,
		"fault_kinds_armed":                 a.armed,
		"fault_kinds_fired":                 a.fired,
		"probes":                            a.probes,
		"inconclusive":                      a.inconcl,
		"batches":                           batches,
		"batch_seeds":                       seeds,
		"simulated_runs_per_hour":           int64(runsPerHour),
		"simulated_time":                    simulatedTime(a),
		"build_s":                           buildS,
		"real_components":                   pc.Real,
		"stub_components":                   pc.Stub,
		"toolchain":                         "go1.26.8 (testing/synctest), build tag verif",
		"tree":                              treeIdentity(),
		"known_findings_matched":            knownHits,
		"exhaustive":                        false,
	}
	if trouble != "" {
		cov["trouble"] = trouble
	}
	moreCoverage(pc, a, cov)
	return map[string]any{
		"property_id": pc.ID,
		"tier":        tier,
		"seed":        int64(seed & 0x7fffffffffffffff),
		"level":       pc.Level,
		"coverage":    cov,
		"assumptions": append([]string{"testing/synctest quiescence detection, Go's sync.Map / WaitGroup and the reflect package are trusted", "the order decorators return exactly the result set of the real registries (canonical sort + chosen permutation)", "a clean batch is sampling evidence, not proof"}, pc.Assumes...),
		"wall_s":      wall,
		"violations":  violations,
	}
}

func selfAssess(pc *propCfg, tier string, a *agg) string {
	if a.runs == 0 {
		return "no simulated run was performed"
	}
	return selfAssessMore(pc, tier, a)
}

// simulatedTime describes the simulated time covered by the runs of a check.
func simulatedTime(a *agg) string {
	base := "go-kid/ioc reads no clock and has no timers; progress is measured in scheduler steps and intercepted registry calls"
	if n := a.probes["close-phase-simulated-seconds"]; n > 0 {
		return fmt.Sprintf("%d s of simulated time (the bubble's clock) passed in %d runs while closers were parked inside App.Close - the scheduler decides, as a pick, that parked closers are that slow, so a timer inside the container would fire; otherwise: %s", n, a.probes["time-passed-while-closers-were-parked"], base)
	}
	return "not applicable: " + base
}

// stallStacks condenses a SIGQUIT goroutine dump: goroutines that are not parked in the
// harness scheduler first, go-kid/ioc frames kept.
func stallStacks(dump string) string {
	blocks := strings.Split(dump, "\n\n")
	var keep []string
	for _, b := range blocks {
		if !strings.HasPrefix(strings.TrimSpace(b), "goroutine ") {
			continue
		}
		if strings.Contains(b, "go-kid/ioc") || strings.Contains(b, "verifsim/engine") || strings.Contains(b, "verifsim/simrt") {
			lines := strings.Split(b, "\n")
			if len(lines) > 24 {
				lines = lines[:24]
			}
			keep = append(keep, strings.Join(lines, "\n"))
		}
		if len(keep) >= 6 {
			break
		}
	}
	if len(keep) == 0 {
		return tail(dump, 60)
	}
	return strings.Join(keep, "\n\n")
}
