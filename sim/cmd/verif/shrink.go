package main

// Type-level reduction of a failing startsim case. The worker's minimiser (engine/minimise.go)
// shrinks what needs no recompilation: runs, picks, faults, instances, processors, rules,
// sources. Here the driver shrinks the compiled part: component types that nothing refers to
// any more, and single fields (injection points, configuration fields, frame fields,
// custom-tagged fields, the logger field) and callbacks of the remaining types. All candidates
// of one round are compiled into ONE batch (each under a program id of its own, so that the
// generated Go types do not collide) and replayed in parallel; a candidate is accepted when the
// same (property, oracle) is reported again.

import (
	"encoding/json"
	"fmt"
	"os"
	"strings"
	"time"

	"verifsim/proto"
	"verifsim/sdl"
)

type typeEdit struct {
	what  string
	apply func(p *sdl.Program) bool // false: not applicable
}

func refsType(p *sdl.Program, name string) bool {
	for _, i := range p.Instances {
		if i.Type == name {
			return true
		}
	}
	for _, t := range p.Types {
		for _, pt := range t.Points {
			if pt.Target == name {
				return true
			}
		}
		for _, fr := range t.Frame {
			if fr.Target == name || fr.GoType == "*"+name {
				return true
			}
		}
	}
	for _, pr := range p.Procs {
		for _, r := range pr.Rules {
			if r.SubType == name {
				return true
			}
		}
	}
	// the alt namesake of a type shares its Go name
	if sdl.IsAlt(name) {
		return false
	}
	for _, t := range p.Types {
		if sdl.IsAlt(t.Name) && sdl.GoTypeName(t.Name) == name && refsType(p, t.Name) {
			return true
		}
	}
	return false
}

func dropUnreferencedTypes(p *sdl.Program) bool {
	changed := false
	for again := true; again; {
		again = false
		for i, t := range p.Types {
			if !refsType(p, t.Name) {
				p.Types = append(p.Types[:i], p.Types[i+1:]...)
				changed, again = true, true
				break
			}
		}
	}
	return changed
}

func typeEdits(p *sdl.Program) []typeEdit {
	var out []typeEdit
	// instances that became superfluous once fields are gone (no recompilation needed, but the
	// worker's minimiser ran before the fields were removed)
	for _, inst := range p.Instances {
		id := inst.ID
		out = append(out, typeEdit{"instance " + inst.ID + " removed", func(q *sdl.Program) bool {
			if q.InstByID(id) == nil {
				return false
			}
			q.RemoveInstance(id)
			return true
		}})
	}
	for ti, t := range p.Types {
		ti := ti
		used := false
		for _, i := range p.Instances {
			used = used || i.Type == t.Name
		}
		if !used {
			continue
		}
		for k := range t.Points {
			k := k
			out = append(out, typeEdit{fmt.Sprintf("%s: point %s removed", t.Name, t.Points[k].Field), func(q *sdl.Program) bool {
				x := q.Types[ti]
				x.Points = append(x.Points[:k], x.Points[k+1:]...)
				return true
			}})
		}
		for k := range t.Points {
			k := k
			if len(t.Points[k].Embed) != 0 && t.Points[k].GoField == "" {
				out = append(out, typeEdit{fmt.Sprintf("%s: point %s declared directly on the component", t.Name, t.Points[k].Field), func(q *sdl.Program) bool {
					q.Types[ti].Points[k].Embed = nil
					return true
				}})
			}
		}
		for k := range t.Config {
			k := k
			out = append(out, typeEdit{fmt.Sprintf("%s: configuration field %s removed", t.Name, t.Config[k].Field), func(q *sdl.Program) bool {
				x := q.Types[ti]
				x.Config = append(x.Config[:k], x.Config[k+1:]...)
				return true
			}})
		}
		for k := range t.Frame {
			k := k
			out = append(out, typeEdit{fmt.Sprintf("%s: frame field %s removed", t.Name, t.Frame[k].Field), func(q *sdl.Program) bool {
				x := q.Types[ti]
				x.Frame = append(x.Frame[:k], x.Frame[k+1:]...)
				return true
			}})
		}
		for k := range t.Custom {
			k := k
			out = append(out, typeEdit{fmt.Sprintf("%s: custom-tagged field %s removed", t.Name, t.Custom[k].Field), func(q *sdl.Program) bool {
				x := q.Types[ti]
				x.Custom = append(x.Custom[:k], x.Custom[k+1:]...)
				return true
			}})
		}
		flag := func(what string, get func(x *sdl.Type) *bool) {
			if *get(t) {
				out = append(out, typeEdit{t.Name + ": " + what, func(q *sdl.Program) bool { *get(q.Types[ti]) = false; return true }})
			}
		}
		flag("logger field removed", func(x *sdl.Type) *bool { return &x.Logger })
		flag("Init removed", func(x *sdl.Type) *bool { return &x.Init })
		flag("AfterPropertiesSet removed", func(x *sdl.Type) *bool { return &x.APS })
		flag("no longer a post-processor", func(x *sdl.Type) *bool { return &x.Proc })
		flag("no longer Primary", func(x *sdl.Type) *bool { return &x.Primary })
		flag("no longer lazy", func(x *sdl.Type) *bool { return &x.Lazy })
	}
	return out
}

// renameCase gives the case's program another id (type and interface names derive from it).
func renameCase(c *proto.Case, from, to string) *proto.Case {
	b, _ := json.Marshal(c)
	// generated type names are <id>T<n> (ordinary) and <id>Z..<n> (zero-size)
	js := strings.ReplaceAll(string(b), from+"T", to+"T")
	js = strings.ReplaceAll(js, from+"Z", to+"Z")
	var out proto.Case
	if err := json.Unmarshal([]byte(js), &out); err != nil {
		return nil
	}
	out.Prog.ID = to
	return &out
}

func cloneCaseJSON(c *proto.Case) *proto.Case {
	b, _ := json.Marshal(c)
	var out proto.Case
	_ = json.Unmarshal(b, &out)
	return &out
}

func countFields(p *sdl.Program) (types, fields int) {
	for _, t := range p.Types {
		types++
		fields += len(t.Points) + len(t.Config) + len(t.Frame) + len(t.Custom)
		if t.Logger {
			fields++
		}
	}
	return
}

// replayCases compiles the programs of all cases into one batch and replays every case in a
// process of its own; ok[i] reports that case i showed (property, oracle) again.
func replayCases(cases []*proto.Case, property, oracle string) ([]bool, error) {
	var progs []*sdl.Program
	for _, c := range cases {
		progs = append(progs, c.Prog)
	}
	b, err := buildBatchX(progs, false, false, "shrink")
	if err != nil {
		if b != nil {
			b.cleanup()
		}
		return nil, err
	}
	defer b.cleanup()
	ok := make([]bool, len(cases))
	const par = 16
	for off := 0; off < len(cases); off += par {
		end := off + par
		if end > len(cases) {
			end = len(cases)
		}
		var jobs []*proto.Job
		for _, c := range cases[off:end] {
			jobs = append(jobs, &proto.Job{Mode: "replay", Property: property, Case: c, Seed: seedFromEnv()})
		}
		for i, wo := range runWorkers(b, jobs, nil, 120) {
			if wo.res == nil {
				continue
			}
			for _, f := range wo.res.Findings {
				if f.Property == property && f.Oracle == oracle {
					ok[off+i] = true
				}
			}
		}
	}
	return ok, nil
}

// shrinkTypes returns a reduced case (same program id as the input) that still reproduces,
// the list of accepted reductions, or nil if nothing could be reduced within the budget.
func shrinkTypes(c *proto.Case, property, oracle string, budgetS float64) (*proto.Case, []string) {
	if c == nil || c.Prog == nil || (c.Engine != "" && c.Engine != "startsim") || c.Prog.Twin != "" {
		return nil, nil
	}
	if _, twin := c.Extra["twin"]; twin {
		return nil, nil
	}
	deadline := time.Now().Add(time.Duration(budgetS * float64(time.Second)))
	orig := c.Prog.ID
	best := cloneCaseJSON(c)
	var accepted []string
	gen := 0
	fresh := func() string { gen++; return fmt.Sprintf("%sz%d", orig, gen) }
	for round := 0; round < 4 && time.Now().Before(deadline); round++ {
		edits := typeEdits(best.Prog)
		var cands []*proto.Case
		var whats []string
		// candidate 0: nothing but the unreferenced types dropped
		{
			x := cloneCaseJSON(best)
			if dropUnreferencedTypes(x.Prog) {
				cands = append(cands, x)
				whats = append(whats, "types nothing refers to removed")
			}
		}
		for _, e := range edits {
			x := cloneCaseJSON(best)
			if e.apply(x.Prog) {
				dropUnreferencedTypes(x.Prog)
				cands = append(cands, x)
				whats = append(whats, e.what)
			}
		}
		if len(cands) == 0 {
			break
		}
		if len(cands) > 64 {
			cands, whats = cands[:64], whats[:64]
		}
		renamed := make([]*proto.Case, len(cands))
		for i, x := range cands {
			renamed[i] = renameCase(x, best.Prog.ID, fresh())
		}
		ok, err := replayCases(renamed, property, oracle)
		if err != nil {
			if os.Getenv("VERIF_SHRINK_DEBUG") != "" {
				fmt.Fprintln(os.Stderr, "shrink: build failed:", clip(err.Error(), 3000))
			}
			break
		}
		var good []int
		for i := range cands {
			if ok[i] {
				good = append(good, i)
			}
		}
		if len(good) == 0 {
			break
		}
		// combine: cumulative application of the reproducing single edits, longest reproducing
		// prefix wins (edits are index-based: apply them from the highest index down per type
		// by replaying them on a fresh clone in reverse candidate order)
		var cum []*proto.Case
		var cumWhat [][]string
		for n := 1; n <= len(good); n++ {
			x := cloneCaseJSON(best)
			var ws []string
			for k := n - 1; k >= 0; k-- { // reverse order keeps the earlier indices valid
				gi := good[k]
				if whats[gi] == "types nothing refers to removed" {
					ws = append(ws, whats[gi])
					continue
				}
				off := 0
				if len(whats) > 0 && whats[0] == "types nothing refers to removed" {
					off = 1
				}
				edits[gi-off].apply(x.Prog)
				ws = append(ws, whats[gi])
			}
			dropUnreferencedTypes(x.Prog)
			cum = append(cum, x)
			cumWhat = append(cumWhat, ws)
		}
		if len(cum) == 1 {
			best = cum[0]
			accepted = append(accepted, cumWhat[0]...)
			continue
		}
		if !time.Now().Before(deadline) {
			best = cands[good[0]]
			accepted = append(accepted, whats[good[0]])
			break
		}
		renamed = make([]*proto.Case, len(cum))
		for i, x := range cum {
			renamed[i] = renameCase(x, best.Prog.ID, fresh())
		}
		ok2, err := replayCases(renamed, property, oracle)
		if err != nil {
			best = cands[good[0]]
			accepted = append(accepted, whats[good[0]])
			break
		}
		pick := -1
		for i := range cum {
			if ok2[i] {
				pick = i
			}
		}
		if pick < 0 {
			best = cands[good[0]]
			accepted = append(accepted, whats[good[0]])
			continue
		}
		best = cum[pick]
		accepted = append(accepted, cumWhat[pick]...)
		if pick != len(cum)-1 {
			continue // some edits did not combine: another round may still take them singly
		}
	}
	if len(accepted) == 0 {
		return nil, nil
	}
	return best, accepted
}

func cmdShrink(path string) int {
	raw, err := os.ReadFile(path)
	if err != nil {
		die(2, "%v", err)
	}
	var rf struct {
		Property string      `json:"property"`
		Oracle   string      `json:"oracle"`
		Case     *proto.Case `json:"case"`
	}
	if err := json.Unmarshal(raw, &rf); err != nil {
		die(2, "%v", err)
	}
	red, what := shrinkTypes(rf.Case, rf.Property, rf.Oracle, 240)
	if red == nil {
		fmt.Println("no reduction")
		return 0
	}
	for _, w := range what {
		fmt.Println("accepted:", w)
	}
	b, _ := json.MarshalIndent(red.Prog, "", " ")
	fmt.Println(string(b))
	return 0
}
