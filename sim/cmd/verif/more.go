package main

import (
	"encoding/json"
	"fmt"
	"os"
	"path/filepath"
	"strconv"
	"strings"
	"sync"

	"verifsim/gen"
	"verifsim/model"
	"verifsim/proto"
	"verifsim/sdl"
)

func moreProps(m map[string]*propCfg) {
	add := func(p *propCfg) {
		p.Real, p.Stub = realCommon, stubCommon
		if p.Technique == "" {
			p.Technique = "deterministic simulation: whole App.Run inside a testing/synctest bubble under a seeded serial scheduler; seeded search over generated programs x schedules x injected faults"
		}
		m[p.ID] = p
	}
	add(&propCfg{ID: "C03", Engine: "startsim", Level: "exploration", Families: []famShare{{gen.FamSubst, 0.9}, {gen.FamWrapName, 0.1}}, QProgs: 520, QK: 10, TProgs: 480, TK: 48,
		Rule: "generated cyclic and acyclic programs with a wrap plan (per substituted component: early only, before-init only, after-init only, before-instantiation, early+after with the same or with different substitutes; 1-2 substituting processors of all order classes); K schedules each. Non-trivial = a substitute was actually returned by a callback in that run; distinct = distinct (program shape, registry path signature)."})
	add(&propCfg{ID: "C05", Engine: "startsim", Level: "exploration", Families: []famShare{{gen.FamLife, 0.65}, {gen.FamWire, 0.2}, {gen.FamSubst, 0.15}}, QProgs: 800, QK: 8, TProgs: 480, TK: 48,
		Rule: "generated DAGs / diamonds / cycles with tails, lazy-eager mixes, 1-4 observing post-processors of all classes and order classes, runners; K schedules each. Non-trivial = at least two Init events in the run; distinct = distinct (program shape, registry path signature)."})
	add(&propCfg{ID: "C12", Engine: "startsim", Level: "exploration", Families: []famShare{{gen.FamLife, 0.7}, {gen.FamCfgMerge, 0.3}}, QProgs: 480, QK: 8, TProgs: 480, TK: 48,
		Rule: "generated programs with post-processors, runners (and simulated loaders) of all three order classes with Order values incl. ties, negatives and extremes; arrival order at the sorter permuted by the schedule; plus direct calls of the sorter on generated multisets. Non-trivial = >= 2 participants of one kind; distinct = distinct (program shape, registry path signature)."})
	add(&propCfg{ID: "C13", Engine: "startsim", Level: "fault_enumeration", Families: []famShare{{gen.FamLife, 1}}, QProgs: 480, QK: 6, TProgs: 480, TK: 32,
		Rule: "generated programs with 0-6 runners; K fault-free schedules; on the first three, every runner in turn is made to fail (exhaustive per explored schedule). Non-trivial = at least one runner ran; distinct = distinct (program shape, registry path signature, fault set)."})
	add(&propCfg{ID: "C14", Engine: "startsim", Level: "exploration", Families: []famShare{{gen.FamClose, 1}}, QProgs: 400, QK: 12, TProgs: 480, TK: 64,
		Rule:      "generated programs with 0-12 closers (eager, lazy, named, unnamed); after a successful Run, App.Close runs inside the bubble; every closer parks inside its Close(); the scheduler releases them one at a time in a seed-chosen order, a seed-chosen subset returns errors; invariants are evaluated at every quiescent point. Non-trivial = at least two quiescent points during Close (>= 1 closer parked); distinct = distinct (program shape, release order / fault set hash).",
		Technique: "deterministic simulation (closesim): App.Close inside a testing/synctest bubble, closers parked in their own callback and released in a seeded order; invariants at every quiescent point (bounded liveness without wall clock)"})
	add(&propCfg{ID: "C20", Engine: "racesim+linsim", Level: "exploration", Families: []famShare{{gen.FamRace, 1}}, QProgs: 24, QK: 6, TProgs: 64, TK: 12,
		Rule:      "two engines. racesim: programs with 8-60 components and 1-3 custom tag scanners (N x P scanner goroutines) and closers are started and closed under the Go race detector with the scheduler in parallel mode (tasks are released in waves, harness callbacks do no synchronisation between release and return); in half of the runs several scanner invocations fail in the same round, in the other half a subset of closers fails. linsim: util/sync2.Map, util/list.ConcurrentSets and gcset are compiled from a scratch copy with a yield point before every statement; 2-4 clients issue 2-6 operations each over 1-3 keys with unique values, exactly one client runs at a time and the seeded Chooser decides who continues at every yield; histories are checked with porcupine against a sequential map / set, once with Range as one step and once with Range interleavable. Non-trivial = a racesim run with >= 2 tasks released together, or a linsim history in which operations of different clients overlap; distinct = distinct histories / (program shape, fault set).",
		Technique: "deterministic simulation: (racesim) real-parallel release of parked scanner / closer goroutines under the Go race detector (happens-before oracle); (linsim) cooperative single-runner scheduling at AST-inserted yield points + porcupine linearizability check against a sequential model"})
	add(&propCfg{ID: "C11", Engine: "startsim", Level: "exploration", Families: []famShare{{gen.FamEmbed, 1}}, QProgs: 480, QK: 5, TProgs: 480, TK: 24,
		Rule:      "twin programs: a flat program (wire / func / value / prop / prefix / custom-tagged fields declared directly) and its re-arrangement with the same fields inside anonymous, untagged, by-value embedded structs (depth 1-3, exported and unexported carriers); frame fields of every kind (untagged, unexported-but-tagged, foreign-tagged, inside a named struct field, inside a tagged embedded struct, inside an embedded pointer) carrying sentinels; 0-2 custom tag scanners that park inside the parallel scanning phase. Both twins run under the same picks. Non-trivial = the program has embedded points, frame or custom-tagged fields; distinct = distinct (program shape, registry path signature).",
		Technique: "deterministic simulation (startsim): twin programs under identical schedules, custom scanners interleaved inside the parallel scanning phase; oracle: twin equivalence + frame sentinels + recording tag processor"})
	add(&propCfg{ID: "C15", Engine: "startsim", Level: "exploration", Families: []famShare{{gen.FamCfgMerge, 0.8}, {gen.FamConfig, 0.2}}, QProgs: 640, QK: 5, TProgs: 480, TK: 24,
		Rule:      "generated configurations: 1-4 sources (raw documents, real FileLoader on files in the run's scratch directory, real ArgsLoader over a simulated argv, simulated loaders of all order classes) with overlapping and disjoint key trees, added through SetConfigLoader / AddConfigLoader / SetConfig / AddLoaders in a generated order; rare source faults (missing file, directory, garbage, loader error, empty). Non-trivial = >= 2 active fault-free sources; distinct = distinct (program shape, registry path signature).",
		Technique: "deterministic simulation (startsim, configuration slice): real loaders and binder under generated source sets and option sequences, injected source faults; oracle: reference deep merge in contract order"})
	add(&propCfg{ID: "C18", Engine: "startsim", Level: "exploration", Families: []famShare{{gen.FamConfig, 1}}, QProgs: 960, QK: 8, TProgs: 480, TK: 32,
		Rule:      "generated components with configuration fields from a fixed menu (placeholder, placeholder with default, prop shorthand, #{${a}+${b}}, #{${a}*${b}}, prefix-bound int/struct, literal), each optionally with a validate constraint from a fixed menu, next to user instantiation-aware processors of all order classes; the arrival order of all processors at the unstable sorter is permuted by the schedule. Non-trivial = the program has an expression or a validated field; distinct = distinct (program shape, registry path signature).",
		Assumes:   []string{"the value x constraint space is the menu's (small integers, identifiers, min/max/gte/required/eq/ne); the biconditional over arbitrary values and expressions is input generation, outside this technique"},
		Technique: "deterministic simulation (startsim, configuration slice): schedule permutes the arrival order of built-in and user processors at the sorter; oracle: small menu evaluator (placeholder -> expression -> bind -> validate)"})
	add(&propCfg{ID: "C09", Engine: "startsim", Level: "fault_enumeration", Families: []famShare{{gen.FamWire, 0.22}, {gen.FamLife, 0.25}, {gen.FamConfig, 0.2}, {gen.FamCfgMerge, 0.1}, {gen.FamEmbed, 0.08}, {gen.FamWrapName, 0.05}, {gen.FamSubst, 0.1}}, QProgs: 300, QK: 3, TProgs: 400, TK: 4,
		Params: map[string]float64{"faultSchedules": 2, "faultPairs": 4}, TParams: map[string]float64{"faultSchedules": 3, "faultPairs": 12},
		Rule: "per program and per explored schedule every callback site discovered by the fault-free run (Init, AfterPropertiesSet, each post-processor callback for each component incl. the container's own, runners excluded) is made to fail singly (exhaustive), plus sampled pairs; programs with unsatisfiable required / optional points are judged by the start-outcome model. Non-trivial = a fault fired or the model says must-fail; distinct = distinct (program shape, registry path signature, fault set)."})
	add(&propCfg{ID: "C04", Engine: "startsim", Level: "fault_enumeration", Families: []famShare{{gen.FamWire, 0.45}, {gen.FamLife, 0.35}, {gen.FamSubst, 0.2}}, QProgs: 200, QK: 3, TProgs: 300, TK: 4,
		Params: map[string]float64{"faultSchedules": 2}, TParams: map[string]float64{"faultSchedules": 3},
		Rule: "three sources of histories: (1) regsim - generated creation trees driven directly against the real singleton cache, every failure position enumerated, continuation after the failure; (2) the tracer on real starts, fault-free and with every discovered callback site failing (transient and permanent); (3) GetComponentByName for every component on the same App after each failed start. Checked call by call against the reference state machine. Non-trivial = an early reference was produced or a fault fired; distinct = distinct (program shape / tree, path signature, fault set)."})
}

// corpus returns the structured programs that open the first batch of a property.
func corpus(pc *propCfg, batchNo int, tier string) []*sdl.Program {
	if batchNo != 0 {
		return nil
	}
	switch pc.ID {
	case "C10", "C03":
		// (C10: the substitution rings first, they are few)
		if pc.ID == "C03" {
			return gen.SubstRingCorpus()
		}
		return append(gen.SubstRingCorpus(), gen.CycleCorpus(false)...)
	case "C02", "C01":
		return gen.CycleCorpus(pc.ID == "C02" && tier == "thorough")
	}
	return nil
}

// makeOtherJobs builds the jobs of the engines that need no generated program (linsim).
func makeOtherJobs(pc *propCfg, b *batch, phase, tier string, seed uint64, batchNo, workers int, remainS float64) []*proto.Job {
	var jobs []*proto.Job
	cases := 3000.0
	budget := 0.0
	if tier == "thorough" {
		cases = 1e9
		budget = remainS - 20
		if budget < 20 {
			budget = 20
		}
	}
	for w := 0; w < workers; w++ {
		jobs = append(jobs, &proto.Job{Mode: "check", Property: pc.ID, Tier: tier, Seed: mix(seed, uint64(batchNo)), ProgIdx: []int{w},
			Budget: budget, Params: map[string]float64{"linsim": 1, "linCases": cases}})
	}
	return jobs
}

// attributeCrash turns a dead or stalled worker into a finding for the properties that
// claim termination / no-crash (C02, C09); for every other property it is trouble (exit 2).
func attributeCrash(pc *propCfg, b *batch, wo *workerOut, job *proto.Job) (*proto.Finding, string) {
	what := "crashed"
	if wo.killed {
		what = fmt.Sprintf("made no progress for %d s and was killed", stallLimitS)
	}
	msg := fmt.Sprintf("worker %d %s; last announced: %q\n%s\n", wo.idx, what, wo.last, clip(wo.err, 3000))
	if pc.ID != "C02" && pc.ID != "C09" {
		return nil, msg
	}
	// last announced program
	var idx int
	var pid string
	if _, err := fmt.Sscanf(wo.last, "prog %d %s", &idx, &pid); err != nil || idx >= len(b.progs) {
		if _, err := fmt.Sscanf(wo.last, "run %s", &pid); err != nil {
			return nil, msg
		}
		idx = -1
		for i, p := range b.progs {
			if p.ID == pid {
				idx = i
			}
		}
		if idx < 0 {
			return nil, msg
		}
	}
	p := b.progs[idx]
	c := &proto.Case{Property: pc.ID, Engine: "startsim", Prog: p}
	// the sweep of that program is the replay (the worker died before it could narrow it)
	f := &proto.Finding{Violation: model.Violation{Property: pc.ID, Oracle: "worker-died-or-hung", Key: p.ID,
		Detail: "the process running program " + p.ID + " " + what + " (non-termination, stack exhaustion or a panic outside the main task): " + clip(wo.err, 1500)}, Case: c}
	f.Case.Extra = map[string]any{"k": job.K, "seed": job.Seed}
	return f, ""
}

// attributeRace turns a race-detector report into a C20 finding for the run that was
// active when the worker halted (halt_on_error=1). It also returns the job for the
// programs the halted worker had not reached yet. A report without a go-kid/ioc frame in
// either access is a harness bug (trouble, exit 2).
func attributeRace(pc *propCfg, b *batch, wo *workerOut, job *proto.Job) ([]proto.Finding, string, *proto.Job) {
	if pc.ID != "C20" {
		return nil, "unexpected race report in a non-race check:\n" + clip(wo.race, 2000), nil
	}
	rep := wo.race
	if i := strings.Index(rep, "WARNING: DATA RACE"); i >= 0 {
		rep = rep[i:]
	}
	if j := strings.Index(rep, "=================="); j > 0 {
		rep = rep[:j]
	}
	// the two accesses: stack blocks up to "Goroutine ... created at" / "Previous ..."
	inIoc := strings.Contains(rep, repoDir+"/") || strings.Contains(rep, "github.com/go-kid/ioc/")
	var pid string
	idx := -1
	if _, err := fmt.Sscanf(wo.last, "run %s", &pid); err == nil {
		for i, p := range b.progs {
			if p.ID == pid {
				idx = i
			}
		}
	}
	if idx < 0 {
		return nil, "race report could not be attributed to a run (last progress line: " + wo.last + ")\n" + clip(rep, 1500), nil
	}
	var rest *proto.Job
	for i, pi := range job.ProgIdx {
		if pi == idx {
			r := *job
			r.ProgIdx = append([]int(nil), job.ProgIdx[i+1:]...)
			rest = &r
		}
	}
	if !inIoc {
		return nil, "race report without a go-kid/ioc frame (harness bug):\n" + clip(rep, 2500), rest
	}
	key := raceKey(rep)
	f := proto.Finding{Violation: model.Violation{Property: "C20", Oracle: "data-race", Key: key,
		Detail: "the race detector reported unsynchronised conflicting accesses during program " + pid + ": " + clip(strings.ReplaceAll(rep, "\n", " | "), 1800)},
		Case: &proto.Case{Property: "C20", Engine: "racesim", Prog: b.progs[idx], Extra: map[string]any{"k": job.K, "seed": job.Seed}}, Reproduced: true}
	return []proto.Finding{f}, "", rest
}

// raceKey extracts the innermost go-kid/ioc frames of the two accesses (stable across runs).
func raceKey(rep string) string {
	var keys []string
	lines := strings.Split(rep, "\n")
	for i, l := range lines {
		if strings.Contains(l, "github.com/go-kid/ioc/") && i+1 < len(lines) {
			fn := strings.TrimSuffix(strings.TrimSpace(l), "()")
			fn = strings.TrimPrefix(fn, "github.com/go-kid/ioc/")
			dup := false
			for _, k := range keys {
				if k == fn {
					dup = true
				}
			}
			if !dup {
				keys = append(keys, fn)
			}
			if len(keys) >= 2 {
				break
			}
		}
	}
	return strings.Join(keys, " <-> ")
}

func moreCoverage(pc *propCfg, a *agg, cov map[string]any) {
	if a.detNote != "" {
		cov["determinism_selftest"] = a.detNote
	}
	if a.yieldPoints != 0 {
		cov["linsim_yield_points_inserted"] = a.yieldPoints
	}
}

// selfAssessMore: reach probes that must be non-zero in a healthy batch (a probe stuck at
// zero means the workload or fault mix no longer reaches what the check claims to explore).
func selfAssessMore(pc *propCfg, tier string, a *agg) string {
	if a.nontrivial == 0 {
		return "no non-trivial run"
	}
	need := func(m map[string]int, keys ...string) string {
		for _, k := range keys {
			if m[k] == 0 {
				return "probe stuck at zero: " + k
			}
		}
		return ""
	}
	sumFired := 0
	for _, v := range a.fired {
		sumFired += v
	}
	switch pc.ID {
	case "C01", "C03":
		return need(a.probes, "substitute-returned", "early-reference-produced", "candidate-order-non-canonical", "holder-holds-its-own-early-substitute")
	case "C07":
		return need(a.probes, "rejected-registration-owner-read")
	case "C02", "C10":
		return need(a.probes, "early-reference-produced", "candidate-order-non-canonical", "scheduler-choice-among-several-parked")
	case "C04":
		if sumFired == 0 {
			return "no injected fault fired"
		}
		return need(a.probes, "regsim-histories", "early-reference-requested-twice")
	case "C09", "C13":
		if sumFired == 0 {
			return "no injected fault fired"
		}
	case "C12":
		return need(a.probes, "direct-sorter-cases")
	case "C18":
		return need(a.probes, "lazy-component-created-after-configuration-change")
	case "C20":
		if a.outcomes["ok"]+a.outcomes["error"] == 0 {
			return "racesim performed no run"
		}
		return need(a.probes, "linsim-range-as-one-step", "linsim-range-interleavable", "linsim-history-with-overlapping-operations", "linsim-map-histories", "linsim-set-histories", "linsim-gset-histories")
	}
	return ""
}

// replayFile re-runs a replay file in a fresh process (fresh build against the current
// tree). It reports whether the same (property, oracle) was observed again.
func replayFile(path string, quiet bool) (bool, string) {
	raw, err := os.ReadFile(path)
	if err != nil {
		return false, err.Error()
	}
	var rf struct {
		Property string      `json:"property"`
		Oracle   string      `json:"oracle"`
		Engine   string      `json:"engine"`
		Case     *proto.Case `json:"case"`
	}
	if err := json.Unmarshal(raw, &rf); err != nil {
		return false, err.Error()
	}
	if rf.Case == nil {
		return false, "replay file has no case"
	}
	var progs []*sdl.Program
	if rf.Case.Prog != nil {
		progs = []*sdl.Program{rf.Case.Prog}
	}
	race := rf.Case.Engine == "racesim"
	lin := rf.Case.Engine == "linsim"
	b, err := buildBatchX(progs, race, lin, "replay")
	if err != nil {
		b.cleanup()
		return false, err.Error()
	}
	defer b.cleanup()
	job := &proto.Job{Mode: "replay", Property: rf.Property, Case: rf.Case, Seed: seedFromEnv()}
	if v, ok := rf.Case.Extra["k"].(float64); ok {
		job.K = int(v)
	}
	if v, ok := rf.Case.Extra["seed"].(float64); ok && race {
		job.Seed = uint64(v)
	}
	outs := runWorkers(b, []*proto.Job{job}, workerEnv(race, b), 300)
	wo := outs[0]
	if wo.race != "" && race {
		if !quiet {
			fmt.Printf("REPRODUCED property=%s oracle=%s (the race detector reported again: %s)\n", rf.Property, rf.Oracle, raceKey(wo.race))
		}
		return true, ""
	}
	if wo.res == nil {
		if rf.Oracle == "worker-died-or-hung" {
			return true, "worker died again: " + clip(wo.err, 400)
		}
		return false, "no result: " + wo.err
	}
	var seen []string
	for _, f := range wo.res.Findings {
		seen = append(seen, f.Property+"/"+f.Oracle)
		if f.Property == rf.Property && f.Oracle == rf.Oracle {
			if !quiet {
				fmt.Printf("REPRODUCED property=%s oracle=%s key=%q\n  %s\n", f.Property, f.Oracle, f.Key, clip(f.Detail, 1000))
			}
			return true, ""
		}
	}
	if wo.race != "" && rf.Case.Engine == "racesim" {
		if !quiet {
			fmt.Printf("REPRODUCED property=%s oracle=%s (race detector reported again)\n", rf.Property, rf.Oracle)
		}
		return true, ""
	}
	return false, "observed instead: " + strings.Join(seen, ", ")
}

func cmdReplay(path string) int {
	ok, msg := replayFile(path, false)
	if ok {
		return 1
	}
	fmt.Printf("NOT-REPRODUCED %s (%s)\n", path, msg)
	return 0
}

func cmdSelftest(args []string) int {
	switch args[0] {
	case "determinism":
		return selftestDeterminism()
	}
	die(2, "unknown selftest %q", args[0])
	return 2
}

func cmdGen(args []string) int {
	fam := gen.FamWire
	if len(args) > 0 {
		fam = args[0]
	}
	n := 3
	if len(args) > 2 {
		// verif gen <family> exact <program seed> [<id>]: one program exactly as a batch generated it
		ps, _ := strconv.ParseUint(args[2], 10, 64)
		id := "P0"
		if len(args) > 3 {
			id = args[3]
		}
		b, _ := json.MarshalIndent(gen.Generate(ps, id, fam), "", " ")
		fmt.Println(string(b))
		return 0
	}
	for i := 0; i < n; i++ {
		p := gen.Generate(mix(seedFromEnv(), uint64(i)), fmt.Sprintf("P%d", i), fam)
		b, _ := json.MarshalIndent(p, "", " ")
		fmt.Println(string(b))
	}
	if len(args) > 1 && args[1] == "src" {
		fmt.Println(gen.Emit([]*sdl.Program{gen.Generate(seedFromEnv(), "P0", fam)}))
	}
	return 0
}

// selftestDeterminism runs the same jobs in many separate processes under different
// GOMAXPROCS values and demands bit-identical per-run hashes.
func selftestDeterminism() int {
	seed := seedFromEnv()
	fams := []string{gen.FamWire, gen.FamSubst, gen.FamLife, gen.FamClose, gen.FamConfig, gen.FamCfgMerge, gen.FamEmbed, gen.FamByName}
	var progs []*sdl.Program
	n := envInt("VERIF_DET_PROGS", 48)
	for i := 0; i < n; i++ {
		progs = append(progs, gen.Generate(mix(seed, uint64(i)+77), fmt.Sprintf("P%d", i), fams[i%len(fams)]))
	}
	bad, procs, runs, trouble := determinismRun(progs, "", seed, envInt("VERIF_DET_PROCS", 30), 5)
	if trouble != "" {
		fmt.Println(trouble)
		return 2
	}
	fmt.Printf("determinism: %d processes x %d runs (%d programs, GOMAXPROCS 1/4/16), divergent processes: %d\n", procs, runs, len(progs), bad)
	if bad != 0 {
		return 2
	}
	return 0
}

// determinismRun executes the same trace job in `procs` separate processes under
// GOMAXPROCS 1/4/16 and compares the per-run hashes. property "" = by program family.
func determinismRun(progs []*sdl.Program, property string, seed uint64, procs, k int) (bad, nprocs, runs int, trouble string) {
	b, err := buildBatch(progs, false, "det")
	if err != nil {
		b.cleanup()
		return 0, procs, 0, err.Error()
	}
	defer b.cleanup()
	var idx []int
	for i := range progs {
		idx = append(idx, i)
	}
	gmp := []string{"1", "4", "16"}
	var ref []any
	nprocs = procs
	for round := 0; round < procs; round += 6 {
		var jobs []*proto.Job
		for j := 0; j < 6 && round+j < procs; j++ {
			jobs = append(jobs, &proto.Job{Mode: "trace", Property: property, Batch: filepath.Join(b.dir, "batch.json"), ProgIdx: idx, K: k, Seed: seed})
		}
		// each process gets its own GOMAXPROCS
		outs := make([]*workerOut, len(jobs))
		var wg sync.WaitGroup
		for j := range jobs {
			j := j
			wg.Add(1)
			go func() {
				defer wg.Done()
				outs[j] = runWorker(b, round+j, jobs[j], []string{"GOMAXPROCS=" + gmp[(round+j)%len(gmp)]}, 300)
			}()
		}
		wg.Wait()
		for j, wo := range outs {
			if wo.res == nil || wo.res.Error != "" {
				return 0, procs, 0, fmt.Sprintf("determinism process %d: no result: %s", round+j, wo.err)
			}
			lines := wo.res.Stats.Samples
			runs = len(lines)
			if ref == nil {
				ref = lines
				continue
			}
			if len(lines) != len(ref) {
				fmt.Printf("process %d (GOMAXPROCS=%s): %d runs vs %d\n", round+j, gmp[(round+j)%len(gmp)], len(lines), len(ref))
				bad++
				continue
			}
			for i := range lines {
				if lines[i] != ref[i] {
					fmt.Printf("process %d (GOMAXPROCS=%s): run %v differs from reference %v\n", round+j, gmp[(round+j)%len(gmp)], lines[i], ref[i])
					bad++
					break
				}
			}
		}
	}
	return bad, procs, runs, ""
}
