package main

import (
	"encoding/json"
	"fmt"
	"os"
	"strings"

	"verifsim/gen"
	"verifsim/model"
	"verifsim/proto"
	"verifsim/sdl"
)

func moreProps(m map[string]*propCfg) {}

// corpus returns the structured programs that open the first batch of a property.
func corpus(pc *propCfg, batchNo int, tier string) []*sdl.Program {
	if batchNo != 0 {
		return nil
	}
	switch pc.ID {
	case "C02", "C01", "C10":
		return gen.CycleCorpus(pc.ID == "C02" && tier == "thorough")
	}
	return nil
}

func makeOtherJobs(pc *propCfg, b *batch, tier string, seed uint64, batchNo, workers int, remainS float64) []*proto.Job {
	return nil
}

// attributeCrash turns a dead or stalled worker into a finding for the properties that
// claim termination / no-crash (C02, C09); for every other property it is trouble (exit 2).
func attributeCrash(pc *propCfg, b *batch, wo *workerOut, job *proto.Job) (*proto.Finding, string) {
	what := "crashed"
	if wo.killed {
		what = "made no progress for 180 s and was killed"
	}
	msg := fmt.Sprintf("worker %d %s; last announced: %q\n%s\n", wo.idx, what, wo.last, clip(wo.err, 3000))
	if pc.ID != "C02" && pc.ID != "C09" {
		return nil, msg
	}
	// last announced program
	var idx int
	var pid string
	if _, err := fmt.Sscanf(wo.last, "prog %d %s", &idx, &pid); err != nil || idx >= len(b.progs) {
		return nil, msg
	}
	p := b.progs[idx]
	c := &proto.Case{Property: pc.ID, Engine: "startsim", Prog: p}
	// the sweep of that program is the replay (the worker died before it could narrow it)
	f := &proto.Finding{Violation: model.Violation{Property: pc.ID, Oracle: "worker-died-or-hung", Key: p.ID,
		Detail: "the process running program " + p.ID + " " + what + " (non-termination, stack exhaustion or a panic outside the main task): " + clip(wo.err, 1500)}, Case: c}
	f.Case.Extra = map[string]any{"k": job.K, "seed": job.Seed}
	return f, ""
}

func attributeRace(pc *propCfg, b *batch, wo *workerOut, job *proto.Job) ([]proto.Finding, string) {
	return nil, "unexpected race report in a non-race check:\n" + clip(wo.race, 2000)
}

func moreCoverage(pc *propCfg, a *agg, cov map[string]any) {}

func selfAssessMore(pc *propCfg, tier string, a *agg) string {
	if a.nontrivial == 0 {
		return "no non-trivial run"
	}
	return ""
}

// replayFile re-runs a replay file in a fresh process (fresh build against the current
// tree). It reports whether the same (property, oracle) was observed again.
func replayFile(path string, quiet bool) (bool, string) {
	raw, err := os.ReadFile(path)
	if err != nil {
		return false, err.Error()
	}
	var rf struct {
		Property string      `json:"property"`
		Oracle   string      `json:"oracle"`
		Engine   string      `json:"engine"`
		Case     *proto.Case `json:"case"`
	}
	if err := json.Unmarshal(raw, &rf); err != nil {
		return false, err.Error()
	}
	if rf.Case == nil {
		return false, "replay file has no case"
	}
	var progs []*sdl.Program
	if rf.Case.Prog != nil {
		progs = []*sdl.Program{rf.Case.Prog}
	}
	pc := props()[rf.Property]
	race := pc != nil && pc.Race && rf.Case.Engine == "racesim"
	b, err := buildBatch(progs, race, "replay")
	if err != nil {
		b.cleanup()
		return false, err.Error()
	}
	defer b.cleanup()
	job := &proto.Job{Mode: "replay", Property: rf.Property, Case: rf.Case, Seed: seedFromEnv()}
	outs := runWorkers(b, []*proto.Job{job}, workerEnv(&propCfg{Race: race}, b), 300)
	wo := outs[0]
	if wo.res == nil {
		if rf.Oracle == "worker-died-or-hung" {
			return true, "worker died again: " + clip(wo.err, 400)
		}
		return false, "no result: " + wo.err
	}
	var seen []string
	for _, f := range wo.res.Findings {
		seen = append(seen, f.Property+"/"+f.Oracle)
		if f.Property == rf.Property && f.Oracle == rf.Oracle {
			if !quiet {
				fmt.Printf("REPRODUCED property=%s oracle=%s key=%q\n  %s\n", f.Property, f.Oracle, f.Key, clip(f.Detail, 1000))
			}
			return true, ""
		}
	}
	if wo.race != "" && rf.Case.Engine == "racesim" {
		if !quiet {
			fmt.Printf("REPRODUCED property=%s oracle=%s (race detector reported again)\n", rf.Property, rf.Oracle)
		}
		return true, ""
	}
	return false, "observed instead: " + strings.Join(seen, ", ")
}

func cmdReplay(path string) int {
	ok, msg := replayFile(path, false)
	if ok {
		return 1
	}
	fmt.Printf("NOT-REPRODUCED %s (%s)\n", path, msg)
	return 0
}

func cmdSelftest(args []string) int {
	switch args[0] {
	case "determinism":
		return selftestDeterminism()
	}
	die(2, "unknown selftest %q", args[0])
	return 2
}

func cmdGen(args []string) int {
	fam := gen.FamWire
	if len(args) > 0 {
		fam = args[0]
	}
	n := 3
	for i := 0; i < n; i++ {
		p := gen.Generate(mix(seedFromEnv(), uint64(i)), fmt.Sprintf("P%d", i), fam)
		b, _ := json.MarshalIndent(p, "", " ")
		fmt.Println(string(b))
	}
	if len(args) > 1 && args[1] == "src" {
		fmt.Println(gen.Emit([]*sdl.Program{gen.Generate(seedFromEnv(), "P0", fam)}))
	}
	return 0
}

func selftestDeterminism() int {
	fmt.Println("determinism selftest: not built yet")
	return 2
}
