// Command verif is the driver of the deterministic-simulation checks for go-kid/ioc.
//
//	verif check <property> [--tier quick|thorough]
//	verif replay <file>
//	verif selftest determinism
//
// Exit codes: 0 the property held on everything explored; 1 at least one violation that is
// not a listed known finding; 2 build / watchdog / self-assessment trouble.
package main

import (
	"encoding/json"
	"fmt"
	"os"
	"os/exec"
	"path/filepath"
	"strconv"
	"strings"
	"time"
)

var (
	verifDir = envOr("VERIF_DIR", "/verif")
	repoDir  = envOr("VERIF_REPO", "/repo")
)

func envOr(k, d string) string {
	if v := os.Getenv(k); v != "" {
		return v
	}
	return d
}

func envInt(k string, d int) int {
	if v := os.Getenv(k); v != "" {
		if n, err := strconv.Atoi(v); err == nil {
			return n
		}
	}
	return d
}

func seedFromEnv() uint64 {
	if v := os.Getenv("VERIF_SEED"); v != "" {
		if n, err := strconv.ParseUint(v, 10, 64); err == nil {
			return n
		}
		if n, err := strconv.ParseInt(v, 10, 64); err == nil {
			return uint64(n)
		}
	}
	return 1
}

func die(code int, format string, args ...any) {
	fmt.Fprintf(os.Stderr, "verif: "+format+"\n", args...)
	os.Exit(code)
}

func main() {
	if len(os.Args) < 2 {
		die(2, "usage: verif check <property> [--tier quick|thorough] | replay <file> | selftest <what>")
	}
	switch os.Args[1] {
	case "check":
		if len(os.Args) < 3 {
			die(2, "usage: verif check <property> [--tier quick|thorough]")
		}
		tier := "quick"
		for i := 3; i < len(os.Args); i++ {
			if os.Args[i] == "--tier" && i+1 < len(os.Args) {
				tier = os.Args[i+1]
			}
		}
		if v := os.Getenv("VERIF_TIER"); v == "quick" || v == "thorough" {
			tier = v
		}
		os.Exit(cmdCheck(os.Args[2], tier, seedFromEnv()))
	case "replay":
		if len(os.Args) < 3 {
			die(2, "usage: verif replay <file>")
		}
		os.Exit(cmdReplay(os.Args[2]))
	case "selftest":
		if len(os.Args) < 3 {
			die(2, "usage: verif selftest determinism")
		}
		os.Exit(cmdSelftest(os.Args[2:]))
	case "shrink":
		// debugging aid: type-level reduction of the case of a replay file (prints, writes nothing)
		os.Exit(cmdShrink(os.Args[2]))
	case "gen":
		// debugging aid: print generated programs
		os.Exit(cmdGen(os.Args[2:]))
	default:
		die(2, "unknown command %q", os.Args[1])
	}
}

// ---- shared helpers ----

func goBin() string {
	for _, c := range []string{"go1.26.8", "/usr/local/bin/go1.26.8", "/opt/veriftools/go1.26.8/bin/go"} {
		if p, err := exec.LookPath(c); err == nil {
			return p
		}
	}
	return "go"
}

func goEnv() []string {
	env := os.Environ()
	env = append(env, "GOFLAGS=-mod=mod", "GOPROXY=off", "GOSUMDB=off", "GOTOOLCHAIN=local", "GONOSUMDB=*", "GONOSUMCHECK=1", "GOFLAGS=-mod=mod")
	return env
}

func writeFile(path, content string) {
	if err := os.MkdirAll(filepath.Dir(path), 0o755); err != nil {
		die(2, "mkdir: %v", err)
	}
	if err := os.WriteFile(path, []byte(content), 0o644); err != nil {
		die(2, "write %s: %v", path, err)
	}
}

func writeJSONFile(path string, v any) {
	b, err := json.MarshalIndent(v, "", " ")
	if err != nil {
		die(2, "json: %v", err)
	}
	writeFile(path, string(b)+"\n")
}

func treeIdentity() map[string]string {
	out := map[string]string{}
	if b, err := exec.Command("git", "-C", repoDir, "rev-parse", "--short", "HEAD").Output(); err == nil {
		out["head"] = strings.TrimSpace(string(b))
	}
	if b, err := exec.Command("git", "-C", repoDir, "status", "--porcelain").Output(); err == nil {
		if s := strings.TrimSpace(string(b)); s != "" {
			out["dirty"] = fmt.Sprintf("%d changed paths", len(strings.Split(s, "\n")))
		} else {
			out["dirty"] = "clean"
		}
	}
	return out
}

func nowS() float64 { return float64(time.Now().UnixNano()) / 1e9 }
