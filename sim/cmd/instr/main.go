// Command instr prints the linsim-instrumented form of a Go file (debugging aid).
package main

import (
	"fmt"
	"os"

	"verifsim/gen"
)

func main() {
	b, err := os.ReadFile(os.Args[1])
	if err != nil {
		panic(err)
	}
	o, n, err := gen.Instrument(os.Args[1], b)
	fmt.Fprintln(os.Stderr, n, "yield points", err)
	fmt.Println(string(o))
}
