package main

import (
	"fmt"

	"verifsim/gen"
)

func main() {
	n, mode := 0, 0
	for seed := uint64(1); seed < 2000; seed++ {
		p := gen.Generate(seed, fmt.Sprintf("P%d", seed), gen.FamConfig)
		n++
		cnt := 0
		for _, t := range p.Types {
			for _, cf := range t.Config {
				if cf.Menu == "prefixNest" {
					cnt++
				}
			}
		}
		if cnt >= 2 {
			mode++
			if mode <= 2 {
				fmt.Println(p.JSON())
			}
		}
	}
	fmt.Println(n, mode)
}
