package main

import (
	"fmt"
	"strings"

	"verifsim/gen"
	"verifsim/model"
)

func main() {
	n, pair, untied := 0, 0, 0
	for seed := uint64(1); seed < 3000; seed++ {
		p := gen.Generate(seed, fmt.Sprintf("P%d", seed), gen.FamSubst)
		n++
		has := false
		for _, i := range p.Instances {
			if strings.HasPrefix(i.Alias, "Aq") {
				has = true
			}
		}
		if !has {
			continue
		}
		pair++
		w := model.NewWorld(p, nil)
		out := w.StartOutcome()
		if !out.HasTied {
			untied++
			if untied <= 2 {
				fmt.Println(p.JSON())
			}
		}
	}
	fmt.Println(n, pair, untied)
}
