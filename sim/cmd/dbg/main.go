package main

import (
	"fmt"
	"strings"

	"verifsim/gen"
	"verifsim/model"
)

func main() {
	n := 0
	for seed := uint64(1); seed < 3000 && n < 3; seed++ {
		p := gen.Generate(seed, fmt.Sprintf("P%d", seed), gen.FamWire)
		for _, i := range p.Instances {
			if strings.HasSuffix(i.Type, "TZ") {
				w := model.NewWorld(p, nil)
				r := w.Resolve(i, p.TypeByName(i.Type).Points[0])
				if len(r.Cands) < 2 {
					n++
					fmt.Println(p.JSON())
					fmt.Println(i.ID, r.Cands)
				}
			}
		}
	}
}
