// Package simyield is the yield point inserted by the linsim instrumenter before every
// statement of the concurrent utilities (in a scratch copy only). With no hook installed
// it is a no-op.
package simyield

// Hook is installed by the linsim scheduler.
var Hook func(site string)

// Point hands control to the scheduler.
func Point(site string) {
	if h := Hook; h != nil {
		h(site)
	}
}
