// Package simyield is the yield point inserted by the linsim instrumenter before every
// statement of the concurrent utilities (in a scratch copy only). With no hook installed
// it is a no-op.
package simyield

import "runtime"

// Hook is installed by the linsim scheduler.
var Hook func(site string)

// Point hands control to the scheduler.
func Point(site string) {
	if h := Hook; h != nil {
		h(site)
	}
}

// Blocked is the site reported by a client that could not take a lock.
const Blocked = "!blocked"

// Acquire replaces X.Lock() / X.RLock() in instrumented code (try = X.TryLock / X.TryRLock):
// a client that cannot take the lock hands control back to the scheduler, marked as blocked,
// instead of blocking the one thread of control the cooperative scheduler has.
func Acquire(try func() bool) {
	for !try() {
		if h := Hook; h != nil {
			h(Blocked)
		} else {
			runtime.Gosched()
		}
	}
}
