// Package proto holds the plain-data types exchanged between the driver and the worker
// processes (jobs, results, replayable cases). It imports nothing from go-kid/ioc.
package proto

import (
	"verifsim/model"
	"verifsim/sdl"
)

// SpecData is the serialisable part of a run specification (what a replay file stores).
type SpecData struct {
	Seed   uint64   `json:"seed"`
	Replay bool     `json:"replay,omitempty"`
	Picks  []int    `json:"picks,omitempty"`
	Faults []string `json:"faults,omitempty"`
	// ForceOrd: -1 = order modes are picks; otherwise all three enumerations and the
	// registration order use this mode (0 canonical, 1 reversed).
	ForceOrd int `json:"forceOrd"`
	// Sched is a label only ("canonical", "reversed", "random").
	Sched string `json:"sched,omitempty"`
	// phases after Run
	Lookups     bool `json:"lookups,omitempty"`
	Continue    bool `json:"continue,omitempty"`
	ClearFaults bool `json:"clearFaults,omitempty"` // continuation with the fault plan cleared (transient failure)
	Close       bool `json:"close,omitempty"`
	// CloseAfterRunnerFailure: App.Close is also called when Run failed because an application
	// runner returned an error (the container was ready by then).
	CloseAfterRunnerFailure bool `json:"closeAfterRunnerFailure,omitempty"`
	// RetryRefresh: when Run failed, the application retries the refresh on the same App
	// (App.Refresh()); if that succeeds the container is shut down like a started one.
	RetryRefresh bool `json:"retryRefresh,omitempty"`
	// GetPaths: configuration paths to read through App.Get after Run.
	GetPaths []string `json:"getPaths,omitempty"`
	Parallel bool     `json:"parallel,omitempty"`
	// Free (parallel mode only): nothing parks; goroutines started by the container run as the
	// Go scheduler pleases. Parking orders every goroutine's work after the loop that started
	// it (quiescence is a synchronisation point), which hides races between that loop and
	// its goroutines from the race detector.
	Free bool `json:"free,omitempty"`
}

// Case is a replayable unit: one program, the runs to perform on it and the property to
// judge them by.
type Case struct {
	Property string         `json:"property"`
	Engine   string         `json:"engine"`
	Prog     *sdl.Program   `json:"program,omitempty"`
	Specs    []SpecData     `json:"specs,omitempty"`
	Extra    map[string]any `json:"extra,omitempty"` // engine-specific (regsim trees, linsim histories)
}

// Finding is a violation together with the case that reproduces it.
type Finding struct {
	model.Violation
	Case        *Case  `json:"case"`
	Reproduced  bool   `json:"reproduced"`
	PicksBefore int    `json:"picksBefore,omitempty"`
	PicksAfter  int    `json:"picksAfter,omitempty"`
	InstBefore  int    `json:"instBefore,omitempty"`
	InstAfter   int    `json:"instAfter,omitempty"`
	Observed    string `json:"observed,omitempty"`
}

// Job is what the driver hands to one worker process (through a JSON file named in the
// environment; never through command-line flags).
type Job struct {
	Mode     string             `json:"mode"` // "check" | "replay"
	Property string             `json:"property"`
	Tier     string             `json:"tier"`
	Batch    string             `json:"batch"` // path of the batch file (programs)
	ProgIdx  []int              `json:"progIdx"`
	K        int                `json:"k"`
	Seed     uint64             `json:"seed"`
	Out      string             `json:"out"`
	Progress string             `json:"progress"`
	TmpDir   string             `json:"tmpDir"`
	Case     *Case              `json:"case,omitempty"`
	Budget   float64            `json:"budgetS"`   // wall-clock budget of this worker (0 = run everything once)
	MinimS   float64            `json:"minimiseS"` // per-finding minimisation cap
	MaxFind  int                `json:"maxFind"`
	Params   map[string]float64 `json:"params,omitempty"`
}

// Stats are measured counters of one worker.
type Stats struct {
	Programs   int            `json:"programs"`
	Runs       int            `json:"runs"`
	Steps      int            `json:"steps"`
	Picks      int            `json:"picks"`
	Distinct   []uint64       `json:"distinct"`   // hashes of distinct non-trivial (program shape, path signature) pairs
	PathSigs   []uint64       `json:"pathSigs"`   // distinct registry path signatures
	Outcomes   map[string]int `json:"outcomes"`   // ok / error / panic / stuck
	FaultArmed map[string]int `json:"faultArmed"` // per fault kind
	FaultFired map[string]int `json:"faultFired"`
	Probes     map[string]int `json:"probes"`
	Samples    []any          `json:"samples"`
	Inconcl    int            `json:"inconclusive"`
	WallS      float64        `json:"wallS"`
	NonTrivial int            `json:"nonTrivialRuns"`
}

type Result struct {
	Findings []Finding `json:"findings"`
	Stats    Stats     `json:"stats"`
	Error    string    `json:"error,omitempty"`
}
