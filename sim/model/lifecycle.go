package model

import (
	"fmt"
	"strings"

	"verifsim/sdl"
)

// runEvents returns the events logged before App.Run returned.
func runEvents(o *Obs) []Ev {
	var out []Ev
	warm := false
	for _, e := range o.Events {
		switch e.Kind {
		case "warmup":
			warm = true
		case "warmup-done":
			warm = false
			continue
		}
		if warm {
			continue // events of the warm-up container that reused the option values
		}
		if o.EndOfRun <= 0 || e.Seq < o.EndOfRun {
			out = append(out, e)
		}
	}
	return out
}

func procOf(subj string) (proc, name string) {
	p, n, _ := strings.Cut(subj, "@")
	return p, n
}

func (w *World) hasSubst() bool {
	procs := map[string]bool{}
	for _, pr := range w.P.Procs {
		procs[pr.ID] = true
	}
	for _, pr := range w.P.Procs {
		for _, ru := range pr.Rules {
			// (a rule that replaces the component of another processor touches none of the
			// program's components)
			if !procs[ru.Target] {
				return true
			}
		}
	}
	return false
}

// instByName maps a registered name to the (first) instance id.
func (w *World) instByName(name string) string {
	if ids := w.ByName[name]; len(ids) != 0 {
		return ids[0]
	}
	return ""
}

// CheckLifecycle is the C05 oracle over the event log of one run.
func (w *World) CheckLifecycle(out *Outcome, o *Obs) []Violation {
	var vs []Violation
	evs := runEvents(o)
	subst := w.hasSubst()
	created := w.Created(o)
	type life struct {
		before, after map[string][]int
		aps, init     []int
		initFault     bool
		afterInst     map[string]int // after-instantiation callbacks per processor
	}
	lives := map[string]*life{}
	get := func(id string) *life {
		l := lives[id]
		if l == nil {
			l = &life{before: map[string][]int{}, after: map[string][]int{}, afterInst: map[string]int{}}
			lives[id] = l
		}
		return l
	}
	for _, e := range evs {
		switch e.Kind {
		case "init":
			l := get(e.Subj)
			l.init = append(l.init, e.Seq)
			if e.Detail == "FAULT" {
				l.initFault = true
			}
		case "aps":
			get(e.Subj).aps = append(get(e.Subj).aps, e.Seq)
		case "afterInst":
			p, n := procOf(e.Subj)
			if id := w.instByName(n); id != "" {
				get(id).afterInst[p]++
			}
		case "before", "after":
			p, n := procOf(e.Subj)
			id := w.instByName(n)
			if id == "" {
				continue
			}
			l := get(id)
			if e.Kind == "before" {
				l.before[p] = append(l.before[p], e.Seq)
			} else {
				l.after[p] = append(l.after[p], e.Seq)
			}
		}
	}
	maxOf := func(xs []int) int {
		m := 0
		for _, x := range xs {
			if x > m {
				m = x
			}
		}
		return m
	}
	minOf := func(xs []int) int {
		m := 0
		for i, x := range xs {
			if i == 0 || x < m {
				m = x
			}
		}
		return m
	}
	// (a request that was refused without running the factory - the name is in creation - is no
	// attempt)
	failedAttempt := map[string]bool{}
	ranFactory := map[string][]bool{}
	for _, c := range o.Reg {
		switch c.Op {
		case "goc-enter":
			ranFactory[c.Name] = append(ranFactory[c.Name], false)
		case "fac":
			if n := len(ranFactory[c.Name]); n != 0 {
				ranFactory[c.Name][n-1] = true
			}
		case "goc-exit":
			ran := true
			if n := len(ranFactory[c.Name]); n != 0 {
				ran = ranFactory[c.Name][n-1]
				ranFactory[c.Name] = ranFactory[c.Name][:n-1]
			}
			if ran && c.Err && (o.EndOfRun <= 0 || c.Seq <= o.EndOfRun) {
				if id := w.instByName(c.Name); id != "" {
					failedAttempt[id] = true
				}
			}
		}
	}
	// short-circuited: an instantiation-aware processor answered before instantiation with
	// the registered instance itself
	shortCircuited := map[string]string{}
	for _, e := range evs {
		if e.Kind != "subst" || !strings.HasPrefix(e.Detail, "beforeInst@") {
			continue
		}
		id, proc := w.instByName(e.Subj), strings.TrimPrefix(e.Detail, "beforeInst@")
		for _, pr := range w.P.Procs {
			for _, r := range pr.Rules {
				if pr.ID == proc && r.Target == id && r.At == sdl.CbBeforeInst && r.Action == "self" {
					shortCircuited[id] = proc
				}
			}
		}
	}
	for _, i := range w.P.Instances {
		if strings.HasPrefix(i.ID, "sub:") {
			continue
		}
		t := w.Types[i.Type]
		l := get(i.ID)
		if proc, ok := shortCircuited[i.ID]; ok && (len(l.init)+len(l.aps)+len(l.before) != 0) {
			vs = append(vs, v("C05", "short-circuited-component-went-through-lifecycle", i.ID, fmt.Sprintf("processor %s answered PostProcessBeforeInstantiation of %s with the registered instance itself (creation is short-circuited: after-initialization callbacks only), yet the component also received before-initialization %v, AfterPropertiesSet %v, Init %v", proc, i.ID, sdl.SortedKeys(l.before), l.aps, l.init)))
		}
		// at most once on any run - per creation: a component whose creation failed and was
		// attempted again (the failure was delivered to an application that copes with it) goes
		// through its lifecycle once per attempt
		if failedAttempt[i.ID] {
			continue
		}
		if len(l.init) > 1 {
			vs = append(vs, v("C05", "init-more-than-once", i.ID, fmt.Sprintf("Init of %s ran %d times in one start (events %v)", i.ID, len(l.init), l.init)))
		}
		if len(l.aps) > 1 {
			vs = append(vs, v("C05", "aps-more-than-once", i.ID, fmt.Sprintf("AfterPropertiesSet of %s ran %d times in one start", i.ID, len(l.aps))))
		}
		for _, p := range sdl.SortedKeys(l.before) {
			if len(l.before[p]) > 1 {
				vs = append(vs, v("C05", "before-init-more-than-once", i.ID, fmt.Sprintf("processor %s saw before-initialization of %s %d times", p, i.ID, len(l.before[p]))))
			}
		}
		for _, p := range sdl.SortedKeys(l.after) {
			if len(l.after[p]) > 1 {
				vs = append(vs, v("C05", "after-init-more-than-once", i.ID, fmt.Sprintf("processor %s saw after-initialization of %s %d times", p, i.ID, len(l.after[p]))))
			}
		}
		// order: before* < aps < init < after*
		var bmax, amin int
		for _, p := range sdl.SortedKeys(l.before) {
			if m := maxOf(l.before[p]); m > bmax {
				bmax = m
			}
		}
		first := true
		for _, p := range sdl.SortedKeys(l.after) {
			if m := minOf(l.after[p]); first || m < amin {
				amin, first = m, false
			}
		}
		if !subst {
			if len(l.aps) != 0 && bmax > minOf(l.aps) {
				vs = append(vs, v("C05", "before-init-after-aps", i.ID, fmt.Sprintf("%s: a before-initialization callback (seq %d) ran after AfterPropertiesSet (seq %d)", i.ID, bmax, minOf(l.aps))))
			}
			if len(l.init) != 0 && bmax > minOf(l.init) {
				vs = append(vs, v("C05", "before-init-after-init", i.ID, fmt.Sprintf("%s: a before-initialization callback (seq %d) ran after Init (seq %d)", i.ID, bmax, minOf(l.init))))
			}
			if len(l.aps) != 0 && len(l.init) != 0 && maxOf(l.aps) > minOf(l.init) {
				vs = append(vs, v("C05", "init-before-aps", i.ID, fmt.Sprintf("%s: Init (seq %d) ran before AfterPropertiesSet (seq %d)", i.ID, minOf(l.init), maxOf(l.aps))))
			}
			if len(l.after) != 0 {
				if len(l.init) != 0 && amin < maxOf(l.init) {
					vs = append(vs, v("C05", "after-init-before-init", i.ID, fmt.Sprintf("%s: an after-initialization callback (seq %d) ran before Init (seq %d)", i.ID, amin, maxOf(l.init))))
				}
				if len(l.aps) != 0 && amin < maxOf(l.aps) {
					vs = append(vs, v("C05", "after-init-before-aps", i.ID, fmt.Sprintf("%s: an after-initialization callback ran before AfterPropertiesSet", i.ID)))
				}
				if bmax != 0 && amin < bmax {
					vs = append(vs, v("C05", "after-init-before-before-init", i.ID, fmt.Sprintf("%s: an after-initialization callback (seq %d) ran before a before-initialization callback (seq %d)", i.ID, amin, bmax)))
				}
			}
		}
		// population complete before the first before-initialization callback
		if snap, ok := o.AtBefore[i.ID]; ok && o.OK() && !subst && created[i.ID] {
			for _, pt := range t.Points {
				a := strings.Join(sortedCopy(snap[pt.Field]), ",")
				b := strings.Join(sortedCopy(o.Points[i.ID][pt.Field]), ",")
				if a != b {
					vs = append(vs, v("C05", "populated-after-before-init", i.ID+"."+pt.Field, fmt.Sprintf("%s.%s held [%s] when the initialization of %s began (first before-initialization callback / AfterPropertiesSet / Init) but [%s] after the start: it was set after initialization began", i.ID, pt.Field, a, i.ID, b)))
				}
			}
			// ... and complete: a point whose target the resolver model determines holds it already
			if out.Verdict == MustSucceed && !w.replacedBeforeInstantiation(i.ID) {
				for _, pt := range t.Points {
					r := out.Res[i.ID][pt.Field]
					if r == nil || !pt.Single() || r.Exact == "" || r.DontCare || r.Tied {
						continue
					}
					if ti := w.Insts[r.Exact]; ti != nil && ti.Contributed && ti.ContribBy != "" {
						continue // registered programmatically later on: it may not have existed yet
					}
					got := snap[pt.Field]
					if len(got) != 1 || w.componentOf(got[0]) != r.Exact {
						vs = append(vs, v("C05", "initialised-before-populated", i.ID+"."+pt.Field, fmt.Sprintf("when the initialization of %s began its point %s held %v; the resolver model determines %s", i.ID, pt.Field, got, r.Exact)))
					}
				}
			}
			for _, cf := range t.Config {
				if o.CfgAtBefore[i.ID][cf.Field] != o.Cfg[i.ID][cf.Field] {
					vs = append(vs, v("C05", "config-set-after-before-init", i.ID+"."+cf.Field, fmt.Sprintf("%s.%s was %q when the initialization of the component began but %q after the start", i.ID, cf.Field, o.CfgAtBefore[i.ID][cf.Field], o.Cfg[i.ID][cf.Field])))
				}
			}
		}
		if !o.OK() || subst {
			continue
		}
		// exactly once on a successful run, for created components
		if created[i.ID] {
			if t.Init && len(l.init) != 1 {
				vs = append(vs, v("C05", "init-not-exactly-once", i.ID, fmt.Sprintf("created component %s has Init but %d init events", i.ID, len(l.init))))
			}
			if t.APS && len(l.aps) != 1 {
				vs = append(vs, v("C05", "aps-not-exactly-once", i.ID, fmt.Sprintf("created component %s has AfterPropertiesSet but %d events", i.ID, len(l.aps))))
			}
			for _, pr := range w.P.Procs {
				if t.Proc {
					// a component that is a processor itself is created while the processor list is
					// being put together: only the processors in front of it are at work by then
					// (at most once each, see above)
					break
				}
				// every instantiation-aware processor is asked once after the component was instantiated,
				// whether or not the component has anything to populate
				if (pr.Class == "inst" || pr.Class == "smart") && !pr.Lazy && l.afterInst[pr.ID] != 1 && !w.replacedBeforeInstantiation(i.ID) {
					vs = append(vs, v("C05", "after-instantiation-callback-not-exactly-once", i.ID, fmt.Sprintf("created component %s: instantiation-aware processor %s saw %d after-instantiation callbacks", i.ID, pr.ID, l.afterInst[pr.ID])))
				}
				if len(l.before[pr.ID]) != 1 || len(l.after[pr.ID]) != 1 {
					vs = append(vs, v("C05", "processor-callbacks-not-exactly-once", i.ID, fmt.Sprintf("created component %s: processor %s saw %d before- and %d after-initialization callbacks", i.ID, pr.ID, len(l.before[pr.ID]), len(l.after[pr.ID]))))
				}
			}
		} else if !t.Lazy && t.Role == "" && len(o.Faults) == 0 {
			// an eager component must have been created by the time Run returns
			vs = append(vs, v("C05", "eager-component-not-created", i.ID, fmt.Sprintf("component %s is not LazyInit but was not created (published) by the time Run returned successfully", i.ID)))
		} else if len(l.init)+len(l.aps)+len(l.before)+len(l.after) != 0 && !t.Lazy {
			// events without publication on a successful run
			vs = append(vs, v("C05", "lifecycle-without-publication", i.ID, fmt.Sprintf("component %s has lifecycle events but was never published", i.ID)))
		}
	}
	if !o.OK() || subst {
		return vs
	}
	// a query by interface creates what it selects (and what that needs), nothing else: a
	// LazyInit component that neither implements the interface nor is needed by an implementer
	// stays uncreated
	{
		var from, iface int
		inQuery := false
		for _, e := range o.Events {
			switch e.Kind {
			case "iface-query":
				inQuery, from = true, e.Seq
				fmt.Sscan(e.Detail, &iface)
			case "iface-query-done":
				inQuery = false
			case "init", "aps":
				if !inQuery || e.Seq < from {
					continue
				}
				i := w.Insts[e.Subj]
				if i == nil || !w.Types[i.Type].Lazy || hasIface(w.Types[i.Type], iface) {
					continue
				}
				needed := false
				for _, j := range w.P.Instances {
					if hasIface(w.Types[j.Type], iface) && w.needs(out, j.ID)[i.ID] {
						needed = true
					}
				}
				if !needed {
					vs = append(vs, v("C05", "query-created-unselected-lazy-component", i.ID, fmt.Sprintf("GetComponents(InterfaceType(I%d)) after the start initialised the LazyInit component %s (event %d), which neither implements that interface nor is needed by a component that does", iface, i.ID, e.Seq)))
				}
			}
		}
	}
	// wiring graph of the successful run
	edges := map[string][]string{}
	held := map[string]bool{}
	for _, h := range sdl.SortedKeys(o.Points) {
		if !created[h] {
			continue
		}
		for _, f := range sdl.SortedKeys(o.Points[h]) {
			for _, x := range o.Points[h][f] {
				c := w.componentOf(x)
				if c != "" && c != h {
					edges[h] = append(edges[h], c)
					held[c] = true
				}
			}
		}
		// by-name targets count as needed even when they could not be wired
		for _, pt := range w.Types[w.Insts[h].Type].Points {
			if pt.Sel == sdl.SelName {
				for _, id := range w.ByName[out.Res[h][pt.Field].ReqName] {
					if ti := w.Insts[id]; ti != nil && ti.Contributed && ti.ContribBy != "" {
						continue // registered programmatically later on: it may not have existed yet
					}
					held[id] = true
				}
			}
		}
	}
	// "depends back" also follows by-name lookups made from inside Init
	back := map[string][]string{}
	for _, h := range sdl.SortedKeys(edges) {
		back[h] = append(back[h], edges[h]...)
	}
	// an any-typed point that was given the App component: the App needs every runner and closer
	for _, h := range sdl.SortedKeys(o.Points) {
		if !created[h] {
			continue
		}
		for _, f := range sdl.SortedKeys(o.Points[h]) {
			for _, x := range o.Points[h][f] {
				if strings.HasPrefix(x, "?") && strings.Contains(x, "app.App") {
					for _, i := range w.P.Instances {
						if w.Types[i.Type].Role != "" {
							back[h] = append(back[h], i.ID)
						}
					}
				}
			}
		}
	}
	for _, h := range sdl.SortedKeys(o.Points) {
		if !created[h] {
			continue
		}
		// a by-name request makes the holder depend on the named component even when the
		// component then turns out not to be assignable (it is created before it is rejected)
		for _, pt := range w.Types[w.Insts[h].Type].Points {
			if pt.Sel == sdl.SelName {
				back[h] = append(back[h], w.ByName[out.Res[h][pt.Field].ReqName]...)
			}
		}
	}
	for _, h := range sdl.SortedKeys(o.InitLookups) {
		for _, tid := range sdl.SortedKeys(o.InitLookups[h]) {
			back[h] = append(back[h], tid)
			held[tid] = true // a performed lookup needs (and creates) its target
		}
	}
	reach := func(from, to string) bool {
		seen := map[string]bool{from: true}
		q := []string{from}
		for len(q) != 0 {
			x := q[0]
			q = q[1:]
			if x == to {
				return true
			}
			for _, y := range back[x] {
				if !seen[y] {
					seen[y] = true
					q = append(q, y)
				}
			}
		}
		return false
	}
	// dependencies first
	for _, c := range w.P.Instances {
		lc := get(c.ID)
		if len(lc.init) != 1 {
			continue
		}
		for _, d := range edges[c.ID] {
			if reach(d, c.ID) {
				continue // d depends back on c
			}
			ld := get(d)
			done := maxOf(ld.aps)
			if m := maxOf(ld.init); m > done {
				done = m
			}
			for _, p := range sdl.SortedKeys(ld.after) {
				if m := maxOf(ld.after[p]); m > done {
					done = m
				}
			}
			if done == 0 {
				if len(w.P.Procs) != 0 || w.Types[w.Insts[d].Type].Init || w.Types[w.Insts[d].Type].APS {
					vs = append(vs, v("C05", "dependency-not-initialised", c.ID+"->"+d, fmt.Sprintf("%s holds %s, which does not depend back on it, but %s has no initialization event before (or at all)", c.ID, d, d)))
				}
				continue
			}
			if done > lc.init[0] {
				vs = append(vs, v("C05", "init-before-dependency", c.ID+"->"+d, fmt.Sprintf("Init of %s (seq %d) ran before its dependency %s finished initialization (seq %d); %s does not depend back on %s", c.ID, lc.init[0], d, done, d, c.ID)))
			}
		}
	}
	// lazy components: initialised only if needed
	for _, i := range w.P.Instances {
		t := w.Types[i.Type]
		if !t.Lazy || t.Role != "" {
			continue
		}
		l := get(i.ID)
		has := len(l.init)+len(l.aps)+len(l.before)+len(l.after) != 0 || created[i.ID]
		if has && !held[i.ID] {
			vs = append(vs, v("C05", "lazy-initialised-without-need", i.ID, fmt.Sprintf("LazyInit component %s was created although no created component holds or names it", i.ID)))
		}
		if !has && held[i.ID] {
			vs = append(vs, v("C05", "lazy-held-but-not-initialised", i.ID, fmt.Sprintf("LazyInit component %s is held by a created component but has no lifecycle", i.ID)))
		}
	}
	return vs
}

// classOf returns the ordering class and Order value of a participant.
type participant struct {
	ID    string
	Class string // "priority" | "ordered" | ""
	Order int
}

// CheckContract verifies that a sequence of participants obeys the ordering contract.
func CheckContract(seq []participant) string {
	// "marker" = the Priority marker without Order(): not ordered, hence unordered
	rank := map[string]int{"priority": 0, "ordered": 1, "": 2, "marker": 2}
	for i := range seq {
		if seq[i].Class == "marker" {
			seq[i].Class = ""
		}
	}
	for i := 1; i < len(seq); i++ {
		a, b := seq[i-1], seq[i]
		if rank[a.Class] > rank[b.Class] {
			return fmt.Sprintf("%s (%s) precedes %s (%s)", a.ID, className(a.Class), b.ID, className(b.Class))
		}
		if a.Class == b.Class && a.Class != "" && a.Order > b.Order {
			return fmt.Sprintf("%s (Order %d) precedes %s (Order %d) within the %s group", a.ID, a.Order, b.ID, b.Order, className(a.Class))
		}
	}
	return ""
}

func className(c string) string {
	switch c {
	case "":
		return "unordered"
	case "ordered":
		return "ordered"
	}
	return c + "-ordered"
}

// CheckOrdering is the observed half of C12: callback sequences of user post-processors
// (per component), runners and simulated loaders obey the contract, every participant once.
func (w *World) CheckOrdering(o *Obs) []Violation {
	var vs []Violation
	evs := runEvents(o)
	procs := map[string]participant{}
	for _, pr := range w.P.Procs {
		procs[pr.ID] = participant{pr.ID, pr.OrderClass, pr.Order}
	}
	// processors, per component and callback kind
	seqs := map[string][]participant{}
	other := map[string][]participant{} // instantiation-aware callbacks: contract order only
	for _, e := range evs {
		switch e.Kind {
		case "before", "after":
		case "afterInst", "props", "beforeInst", "early":
			p, n := procOf(e.Subj)
			if w.instByName(n) != "" {
				if _, ok := procs[p]; ok {
					other[e.Kind+" "+n] = append(other[e.Kind+" "+n], procs[p])
				}
			}
			continue
		default:
			continue
		}
		p, n := procOf(e.Subj)
		if w.instByName(n) == "" {
			continue // only components created after the processor list is complete
		}
		seqs[e.Kind+" "+n] = append(seqs[e.Kind+" "+n], procs[p])
	}
	for _, k := range sdl.SortedKeys(other) {
		if msg := CheckContract(other[k]); msg != "" {
			vs = append(vs, v("C12", "processor-order-violates-contract", strings.Fields(k)[0], fmt.Sprintf("%s callbacks for %s: %s; sequence %v", strings.Fields(k)[0], strings.Fields(k)[1], msg, ids(other[k]))))
		}
	}
	for _, k := range sdl.SortedKeys(seqs) {
		if msg := CheckContract(seqs[k]); msg != "" {
			vs = append(vs, v("C12", "processor-order-violates-contract", strings.Fields(k)[0], fmt.Sprintf("%s-initialization callbacks for %s: %s; sequence %v", strings.Fields(k)[0], strings.Fields(k)[1], msg, ids(seqs[k]))))
		}
		if id := w.instByName(strings.Fields(k)[1]); id != "" && w.Types[w.Insts[id].Type].Proc {
			continue // created while the processor list is being put together
		}
		if o.OK() && len(seqs[k]) != len(procs) && !w.hasSubst() {
			vs = append(vs, v("C12", "processor-not-exactly-once", strings.Fields(k)[0], fmt.Sprintf("%s: %d callbacks for %d processors: %v", k, len(seqs[k]), len(procs), ids(seqs[k]))))
		}
	}
	// whenever the early-reference factory of a component produced a reference, every smart
	// processor took part in producing it (the processor list is complete by then: programs with
	// components that are themselves processors are left out)
	hasProcComp := false
	for _, t := range w.P.Types {
		hasProcComp = hasProcComp || t.Proc
	}
	if !hasProcComp && len(o.Faults) == 0 {
		earlyBy := map[string]map[string]int{}
		for _, e := range evs {
			if e.Kind == "early" {
				p, n := procOf(e.Subj)
				if earlyBy[n] == nil {
					earlyBy[n] = map[string]int{}
				}
				earlyBy[n][p]++
			}
		}
		for _, c := range o.Reg {
			if c.Op != "efx" || c.Err || (o.EndOfRun > 0 && c.Seq > o.EndOfRun) || w.instByName(c.Name) == "" {
				continue
			}
			for _, pr := range w.P.Procs {
				if pr.Class == "smart" && earlyBy[c.Name][pr.ID] == 0 {
					vs = append(vs, v("C12", "smart-processor-left-out-of-early-reference", c.Name, fmt.Sprintf("the early reference of %s was produced, but smart processor %s was not asked (GetEarlyBeanReference callbacks seen for %s: %v)", c.Name, pr.ID, c.Name, earlyBy[c.Name])))
					break
				}
			}
		}
	}
	// runners
	var rs []participant
	for _, e := range evs {
		if e.Kind == "run" {
			if i := w.Insts[e.Subj]; i != nil {
				rs = append(rs, participant{i.ID, w.Types[i.Type].OrderClass, i.Order})
			}
		}
	}
	if msg := CheckContract(rs); msg != "" {
		vs = append(vs, v("C12", "runner-order-violates-contract", "", fmt.Sprintf("runners: %s; sequence %v", msg, ids(rs))))
	}
	// loaders
	// (one sequence per initialisation of the configuration: Run, then an optional reload)
	var ls []participant
	pass := "first"
	flush := func() {
		if msg := CheckContract(ls); msg != "" {
			vs = append(vs, v("C12", "loader-order-violates-contract", pass, fmt.Sprintf("loaders (%s initialisation): %s; sequence %v", pass, msg, ids(ls))))
		}
		seen := map[string]int{}
		for _, l := range ls {
			seen[l.ID]++
			if pass == "first" {
				for _, s := range w.P.Sources {
					if s.ID == l.ID && s.Late {
						vs = append(vs, v("C12", "loader-invoked-in-the-round-that-registered-it", l.ID, fmt.Sprintf("loader %s was registered while the configuration was being initialised (by %q) or after Run, yet it was invoked in the first initialisation: sequence %v", l.ID, s.SpawnedBy, ids(ls))))
					}
				}
			}
		}
		for _, id := range sdl.SortedKeys(seen) {
			if seen[id] > 1 {
				vs = append(vs, v("C12", "loader-invoked-more-than-once", pass, fmt.Sprintf("loader %s was invoked %d times in the %s initialisation", id, seen[id], pass)))
			}
		}
		ls = nil
	}
	for _, e := range o.Events {
		if e.Kind == "warmup" {
			pass = "warm-up container's"
		}
		if e.Kind == "warmup-done" {
			flush()
			pass = "first"
		}
		if e.Kind == "reload" {
			flush()
			pass = "second"
		}
		if e.Kind == "load" {
			for _, s := range w.P.Sources {
				if s.ID == e.Subj {
					ord := s.Order
					if pass == "second" && s.Order2 != nil {
						ord = *s.Order2 // the order the loader answers with by then
					}
					ls = append(ls, participant{s.ID, s.OrderClass, ord})
				}
			}
		}
	}
	flush()
	return vs
}

func ids(ps []participant) []string {
	var out []string
	for _, p := range ps {
		out = append(out, fmt.Sprintf("%s[%s %d]", p.ID, className(p.Class), p.Order))
	}
	return out
}

// CheckRunners is the C13 oracle.
func (w *World) CheckRunners(o *Obs) []Violation {
	var vs []Violation
	evs := runEvents(o)
	var runs []Ev
	faultIdx := -1
	for _, e := range evs {
		if e.Kind == "run" {
			if e.Detail == "FAULT" && faultIdx < 0 {
				faultIdx = len(runs)
			}
			runs = append(runs, e)
		}
	}
	count := map[string]int{}
	for _, e := range runs {
		count[e.Subj]++
	}
	for _, id := range sdl.SortedKeys(count) {
		if count[id] > 1 {
			vs = append(vs, v("C13", "runner-invoked-more-than-once", id, fmt.Sprintf("runner %s was invoked %d times", id, count[id])))
		}
	}
	// nothing is initialised after the first runner started
	if len(runs) != 0 {
		first := runs[0].Seq
		for _, e := range evs {
			if e.Seq > first && (e.Kind == "init" || e.Kind == "aps" || e.Kind == "before" || e.Kind == "after") {
				vs = append(vs, v("C13", "initialization-after-first-runner", e.Kind, fmt.Sprintf("%s(%s) at seq %d happened after the first runner was invoked (seq %d)", e.Kind, e.Subj, e.Seq, first)))
				break
			}
		}
	}
	// every eager component has finished initialization before the first runner starts
	if len(runs) != 0 && len(o.Faults) == 0 && !w.hasSubst() {
		first := runs[0].Seq
		initAt := map[string]int{}
		for _, e := range evs {
			if e.Kind == "init" && e.Detail == "" {
				if _, ok := initAt[e.Subj]; !ok {
					initAt[e.Subj] = e.Seq
				}
			}
		}
		for _, i := range w.P.Instances {
			t := w.Types[i.Type]
			if t.Lazy || !t.Init || t.Zero {
				continue
			}
			if at, ok := initAt[i.ID]; !ok || at > first {
				vs = append(vs, v("C13", "runner-started-before-eager-component-initialised", i.ID, fmt.Sprintf("eager component %s had not been initialised when the first runner %s was invoked (Init seq %d, first runner seq %d)", i.ID, runs[0].Subj, at, first)))
			}
		}
	}
	if faultIdx >= 0 {
		if !o.RunErr && o.Panic == "" {
			vs = append(vs, v("C13", "runner-error-swallowed", runs[faultIdx].Subj, fmt.Sprintf("runner %s returned an error but Run returned nil", runs[faultIdx].Subj)))
		}
		if o.Panic != "" {
			vs = append(vs, v("C13", "runner-error-panic", runs[faultIdx].Subj, "runner error led to a panic: "+o.Panic))
		}
		if faultIdx != len(runs)-1 {
			vs = append(vs, v("C13", "runner-invoked-after-failure", runs[faultIdx].Subj, fmt.Sprintf("runner %s failed, yet %s was invoked afterwards", runs[faultIdx].Subj, runs[faultIdx+1].Subj)))
		}
	}
	if o.OK() && !w.hasSubst() {
		for _, i := range w.P.Instances {
			if w.Types[i.Type].Role == "runner" && count[i.ID] != 1 {
				vs = append(vs, v("C13", "runner-not-invoked-exactly-once", i.ID, fmt.Sprintf("runner %s was invoked %d times on a successful start", i.ID, count[i.ID])))
			}
		}
	}
	if !o.OK() && faultIdx < 0 && len(runs) != 0 {
		vs = append(vs, v("C13", "runner-invoked-on-failed-start", runs[0].Subj, fmt.Sprintf("start-up failed (err=%q panic=%q) but runner %s was invoked", o.ErrText, o.Panic, runs[0].Subj)))
	}
	// contract order of the runner sequence
	for _, x := range w.CheckOrdering(o) {
		if x.Oracle == "runner-order-violates-contract" {
			x.Property = "C13"
			vs = append(vs, x)
		}
	}
	return vs
}

// CheckCleanFailure is the C09 oracle for one run.
func (w *World) CheckCleanFailure(out *Outcome, o *Obs) []Violation {
	var vs []Violation
	vs = append(vs, w.CheckTermination(o, "C09")...)
	if o.Stuck || o.OverSteps {
		return vs
	}
	evs := runEvents(o)
	ran := ""
	for _, e := range evs {
		if e.Kind == "run" {
			ran = e.Subj
			break
		}
	}
	// faults that fired before Run returned (later ones - reload, Close, continuation - are
	// not Run's business)
	fired := ""
	runnerFault := false
	// a failure inside a lookup whose caller copes with the error has been delivered to the
	// application: that Run goes on is the application's doing
	type span struct{ from, to int }
	var tolerated []span
	{
		open := map[string]int{}
		for _, e := range evs {
			switch e.Kind {
			case "init-lookup", "proc-lookup":
				open[e.Subj+">"+e.Detail] = e.Seq
			case "init-lookup-tolerated", "proc-lookup-tolerated":
				tolerated = append(tolerated, span{open[e.Subj+">"+e.Detail], e.Seq})
			}
		}
	}
	for _, e := range evs {
		if e.Detail != "FAULT" {
			continue
		}
		inTolerated := false
		for _, t := range tolerated {
			if t.from < e.Seq && e.Seq < t.to {
				inTolerated = true
			}
		}
		if inTolerated {
			continue
		}
		switch e.Kind {
		case "run":
			runnerFault = true
		case "close":
		default:
			if fired == "" {
				fired = e.Kind + ":" + e.Subj
			}
		}
	}
	if out.Verdict == Rejected {
		return vs
	}
	if fired != "" {
		switch {
		case o.Panic != "":
			vs = append(vs, v("C09", "callback-error-panic", faultKindOf(fired), fmt.Sprintf("callback %s returned an error; Run panicked instead of returning it: %s [%s]", fired, o.Panic, o.PanicStk)))
		case !o.RunErr:
			vs = append(vs, v("C09", "callback-error-swallowed", faultKindOf(fired), fmt.Sprintf("callback %s returned an error during Run but Run returned nil", fired)))
		}
		if ran != "" && !runnerFault {
			vs = append(vs, v("C09", "runner-invoked-after-callback-error", faultKindOf(fired), fmt.Sprintf("callback %s failed, yet runner %s was invoked", fired, ran)))
		}
		return vs
	}
	if runnerFault {
		return vs // C13
	}
	if len(o.Faults) != 0 {
		return vs // armed but not reached
	}
	if w.hasSubst() {
		// whether a substituting start succeeds is C03's business; that it does not panic is ours
		if o.Panic != "" {
			vs = append(vs, v("C09", "start-up-panic", "", fmt.Sprintf("Run panicked instead of returning an error: %s [%s]", o.Panic, o.PanicStk)))
		}
		return vs
	}
	cfgBad, cfgWhy := w.ConfigDemand()
	if af := ActiveFault(w.P); af != "" {
		// a configuration source that cannot be loaded / decoded: clean failure demanded
		switch {
		case o.Panic != "":
			vs = append(vs, v("C09", "source-fault-panic", af, fmt.Sprintf("configuration source fault %s: Run panicked instead of returning an error: %s [%s]", af, o.Panic, o.PanicStk)))
		case !o.RunErr:
			vs = append(vs, v("C09", "source-fault-swallowed", af, fmt.Sprintf("configuration source fault %s, yet Run returned nil", af)))
		}
		if ran != "" {
			vs = append(vs, v("C09", "runner-invoked-on-failed-start", af, fmt.Sprintf("configuration source fault %s, yet runner %s was invoked", af, ran)))
		}
		return vs
	}
	switch {
	case out.Verdict == MustFail || cfgBad == "must-fail":
		why := out.Why
		if out.Verdict != MustFail {
			why = cfgWhy
		}
		if o.Panic != "" {
			vs = append(vs, v("C09", "unsatisfied-required-panic", why, fmt.Sprintf("%s: Run panicked instead of returning an error: %s [%s]", why, o.Panic, o.PanicStk)))
		} else if !o.RunErr {
			vs = append(vs, v("C09", "unsatisfied-required-succeeded", why, fmt.Sprintf("%s, yet Run returned nil", why)))
		}
		if ran != "" {
			vs = append(vs, v("C09", "runner-invoked-on-failed-start", why, fmt.Sprintf("%s, yet runner %s was invoked", why, ran)))
		}
	case out.Verdict == MustSucceed && cfgBad == "":
		if !o.OK() {
			// only optional points / values are unsatisfiable (if any): must not fail
			opt := ""
			for _, i := range w.P.Instances {
				for _, pt := range w.Types[i.Type].Points {
					if pt.Optional && out.Res[i.ID][pt.Field].Empty() {
						opt = i.ID + "." + pt.Field
					}
				}
			}
			vs = append(vs, v("C09", "satisfiable-start-failed", opt, fmt.Sprintf("every required point and value is satisfiable (unsatisfiable optional point: %q) but Run failed: err=%q panic=%q [%s]", opt, o.ErrText, o.Panic, o.PanicStk)))
		} else {
			created := w.Created(o)
			for _, i := range w.P.Instances {
				if !created[i.ID] {
					continue
				}
				for _, pt := range w.Types[i.Type].Points {
					if pt.Optional && out.Res[i.ID][pt.Field].Empty() && len(o.Points[i.ID][pt.Field]) != 0 {
						vs = append(vs, v("C09", "optional-unsatisfiable-populated", i.ID+"."+pt.Field, fmt.Sprintf("optional point %s.%s has no admissible candidate but holds %v", i.ID, pt.Field, o.Points[i.ID][pt.Field])))
					}
				}
			}
		}
	}
	return vs
}

func faultKindOf(site string) string {
	k, _, _ := strings.Cut(site, ":")
	return k
}
