package model

import (
	"fmt"

	"verifsim/sdl"
)

// CheckClose is the C14 oracle over the snapshots taken at every quiescent point while
// App.Close was running (every closer parks inside its Close until the scheduler releases it).
func (w *World) CheckClose(o *Obs) []Violation {
	var vs []Violation
	// (a start that failed because a runner returned an error is shut down like a successful
	// one: the container was ready; the harness calls Close then, and only then)
	if !o.OK() && !(o.Stuck && len(o.CloseSnaps) != 0) && !(o.RunErr && o.Panic == "" && !o.OverSteps) {
		return nil
	}
	var closers []string
	for _, i := range w.P.Instances {
		// what counts is the published version: a closer that a post-processor replaced by an
		// object without Close() is no closer any more (and must not keep the others from being closed)
		isCloser := func(t *sdl.Type) bool { return t.Role == "closer" || t.AlsoCloser }
		if isCloser(w.Types[i.Type]) && isCloser(w.Types[w.pubType(i.ID)]) {
			closers = append(closers, i.ID)
		}
	}
	closeCalled := false
	for _, e := range o.Events {
		if e.Kind == "close-call" {
			closeCalled = true
		}
	}
	if !closeCalled {
		return nil
	}
	if len(o.CloseSnaps) != 0 && len(closers) != 0 {
		first := o.CloseSnaps[0]
		// fan-out: at the first quiescent point (nothing released yet) App.Close has started
		// one goroutine per closer; none can have been held back by another
		started := setOf(first.Starting)
		for _, c := range closers {
			if !started[c] && first.Entered[c] == 0 {
				vs = append(vs, v("C14", "closer-not-started-with-the-others", c, fmt.Sprintf("at the first quiescent point of App.Close (nothing released yet) no goroutine for closer %s exists; starting: %v, inside Close: %v", c, first.Starting, first.Parked)))
			}
		}
	}
	// a closer whose goroutine has been released must have been invoked, whatever the
	// others did before (failed, still running)
	for i, s := range o.CloseSnaps {
		if i == 0 {
			continue
		}
		starting := setOf(s.Starting)
		wasStarting := setOf(o.CloseSnaps[0].Starting)
		for _, c := range closers {
			if wasStarting[c] && !starting[c] && s.Entered[c] == 0 {
				vs = append(vs, v("C14", "released-closer-not-invoked", c, fmt.Sprintf("the goroutine of closer %s was released but its Close() was not invoked (quiescent point %d; finished so far: %v, still inside Close: %v)", c, i, sdl.SortedKeys(s.Exited), s.Parked)))
			}
		}
	}
	for i, s := range o.CloseSnaps {
		if s.Returned && len(s.Parked)+len(s.Starting) != 0 {
			vs = append(vs, v("C14", "close-returned-while-closer-running", "", fmt.Sprintf("App.Close had returned at quiescent point %d although closers %v were still inside their Close() and %v had not been invoked yet", i, s.Parked, s.Starting)))
			break
		}
	}
	// end state: every closer entered and exited exactly once, Close returned
	entered, exited := map[string]int{}, map[string]int{}
	for _, e := range o.Events {
		switch e.Kind {
		case "close-enter":
			entered[e.Subj]++
		case "close-exit":
			exited[e.Subj]++
		}
	}
	for _, c := range closers {
		if entered[c] != 1 {
			vs = append(vs, v("C14", "closer-not-invoked-exactly-once", c, fmt.Sprintf("closer %s was invoked %d times by App.Close", c, entered[c])))
		}
	}
	for _, c := range sdl.SortedKeys(entered) {
		if w.Insts[c] == nil || !(w.Types[w.Insts[c].Type].Role == "closer" || w.Types[w.Insts[c].Type].AlsoCloser) {
			vs = append(vs, v("C14", "non-closer-closed", c, fmt.Sprintf("%s is not a registered closer but its Close was invoked", c)))
		}
	}
	if !o.CloseReturned {
		vs = append(vs, v("C14", "close-did-not-return", "", fmt.Sprintf("all closers were released but App.Close did not return (stuck=%v)", o.Stuck)))
	} else {
		for _, c := range closers {
			if entered[c] == 1 && exited[c] != 1 {
				vs = append(vs, v("C14", "close-returned-before-closer-finished", c, fmt.Sprintf("App.Close returned but closer %s had not finished (entered %d, finished %d)", c, entered[c], exited[c])))
			}
		}
	}
	return vs
}
