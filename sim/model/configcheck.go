package model

import (
	"fmt"
	"sort"
	"strconv"
	"strings"

	"verifsim/sdl"
)

// failingFault: the source makes Run fail when it is consulted.
func failingFault(f string) bool {
	return f == "error" || f == "garbage" || f == "missing" || f == "isdir"
}

// ActiveFault reports a failing fault among the active sources.
func ActiveFault(p *sdl.Program) string {
	for _, s := range ActiveSources(p) {
		if failingFault(s.Fault) {
			return s.ID + ":" + s.Fault
		}
	}
	return ""
}

// AllMerges returns the merged configuration for every loader sequence the contract
// admits (sources with equal class and Order may come in either order).
func AllMerges(p *sdl.Program) []map[string]string { return allMerges(ActiveSources(p)) }

// AllMergesAfterReload: the same with the late sources included.
func AllMergesAfterReload(p *sdl.Program) []map[string]string {
	// the second initialisation merges every output again, in sequence, ON TOP of what the
	// first one left in the binder (the key trees are of equal shape, so overlaying the
	// flattened leaves is the deep merge)
	var out []map[string]string
	for _, m1 := range AllMerges(p) {
		for _, m2 := range allMerges(secondPass(ActiveSourcesAfterReload(p))) {
			m := map[string]string{}
			for k, x := range m1 {
				m[k] = x
			}
			for k, x := range m2 {
				m[k] = x
			}
			out = append(out, m)
			if len(out) > 64 {
				return out
			}
		}
	}
	return out
}

func allMerges(act []*sdl.Source) []map[string]string {
	seq, _ := loaderSequence(act)
	// tie groups: maximal runs of equal (class, order) within the first two classes
	type grp struct{ items []*sdl.Source }
	var groups []grp
	for i := 0; i < len(seq); {
		c, o := orderClassOf(seq[i])
		j := i + 1
		if c != "" {
			for j < len(seq) {
				c2, o2 := orderClassOf(seq[j])
				if c2 != c || o2 != o {
					break
				}
				j++
			}
		}
		groups = append(groups, grp{seq[i:j]})
		i = j
	}
	var out []map[string]string
	var rec func(gi int, acc []*sdl.Source)
	rec = func(gi int, acc []*sdl.Source) {
		if len(out) > 64 {
			return
		}
		if gi == len(groups) {
			merged := map[string]any{}
			for _, s := range acc {
				if s.Fault != "" {
					continue
				}
				deepMerge(merged, s.Doc)
			}
			out = append(out, FlattenDoc(merged))
			return
		}
		permute(groups[gi].items, func(perm []*sdl.Source) bool {
			rec(gi+1, append(append([]*sdl.Source(nil), acc...), perm...))
			return len(out) <= 64
		})
	}
	rec(0, nil)
	return out
}

// permute calls f with every permutation of xs until f answers false.
func permute(xs []*sdl.Source, f func([]*sdl.Source) bool) {
	n := len(xs)
	idx := make([]int, n)
	for i := range idx {
		idx[i] = i
	}
	stop := false
	var rec func(k int)
	rec = func(k int) {
		if stop {
			return
		}
		if k == n {
			p := make([]*sdl.Source, n)
			for i, j := range idx {
				p[i] = xs[j]
			}
			if !f(p) {
				stop = true
			}
			return
		}
		for i := k; i < n && !stop; i++ {
			idx[k], idx[i] = idx[i], idx[k]
			rec(k + 1)
			idx[k], idx[i] = idx[i], idx[k]
		}
	}
	rec(0)
}

// AllLeafPaths is the union of the leaf paths of all sources of the program.
func AllLeafPaths(p *sdl.Program) []string {
	set := map[string]bool{}
	for _, s := range p.Sources {
		for k := range FlattenDoc(s.Doc2) {
			set[k] = true
		}
		for k := range FlattenDoc(s.Doc) {
			set[k] = true
		}
	}
	out := make([]string, 0, len(set))
	for k := range set {
		out = append(out, k)
	}
	sort.Strings(out)
	return out
}

// CheckConfigMerge is the C15 oracle: the effective configuration equals the reference
// deep merge of the active sources in contract order.
func (w *World) CheckConfigMerge(o *Obs) []Violation {
	var vs []Violation
	p := w.P
	if len(p.Sources) == 0 {
		return nil
	}
	if ActiveFault(p) != "" {
		// precedence is judged on fault-free configurations only - a source that cannot be loaded
		// fails the start. Should the start go on all the same, the sources that ARE intact must
		// all be there (judged when the failing ones were added, not set: leaving them aside then
		// changes nothing for the others)
		if o.OK() && o.Get != nil {
			q := *p
			q.Sources = nil
			adding := true
			for _, s := range p.Sources {
				if failingFault(s.Fault) {
					adding = adding && !s.Late && (s.Via == "AddConfigLoader" || s.Via == "AddLoaders")
					continue
				}
				q.Sources = append(q.Sources, s)
			}
			if adding && len(q.Sources) != 0 && ActiveFault(&q) == "" {
				for _, x := range NewWorld(&q, MergeSources(&q)).checkMergeStage(o.Get, AllMerges(&q), " (a source failed to load - "+ActiveFault(p)+" - and the start went on)") {
					x.Oracle = "intact-sources-dropped-after-a-failing-one"
					vs = append(vs, x)
				}
			}
		}
		return vs
	}
	if !o.OK() {
		// failures for other reasons (validation, required values, expressions over absent keys)
		// are C09 / C18
		// ... except a panic: with every source intact, sequencing and merging the loaders cannot
		// blow up (what the fields do with the merged values can only fail with an error)
		if o.Panic != "" && !o.RegPanic && !o.Stuck && !o.OverSteps {
			vs = append(vs, v("C15", "loading-intact-sources-panicked", "", fmt.Sprintf("every configuration source is intact, yet Run panicked: %s [%s]; sources: %s", o.Panic, o.PanicStk, describeSources(p))))
		}
		return vs
	}
	if o.Get == nil {
		return nil
	}
	vs = append(vs, w.checkMergeStage(o.Get, AllMerges(p), "")...)
	if o.Get2 != nil {
		lateFault := false
		for _, s := range p.Sources {
			if s.Late && failingFault(s.Fault) {
				lateFault = true
			}
		}
		if !lateFault {
			if o.ReloadErr != "" {
				vs = append(vs, v("C15", "reload-failed", "", "adding a source after Run and initialising the configuration again failed: "+o.ReloadErr))
			} else {
				vs = append(vs, w.checkMergeStage(o.Get2, AllMergesAfterReload(p), " after a source was added and the configuration initialised again")...)
			}
		}
	}
	merges := AllMerges(p)
	// a prefix-bound struct field sees the same merge
	if len(merges) == 1 {
		m := merges[0]
		created := w.Created(o)
		for _, i := range p.Instances {
			if !created[i.ID] {
				continue // a lazy component nothing needed: its fields were never bound
			}
			for _, cf := range w.Types[i.Type].Config {
				if cf.Menu != "prefixStruct" {
					continue
				}
				_, okA := m[cf.Keys[0]+".a"]
				_, okB := m[cf.Keys[0]+".b"]
				if !okA && !okB {
					continue
				}
				a := m[cf.Keys[0]+".a"]
				if a == "" {
					a = "0"
				}
				want := fmt.Sprintf("{%s %s}", a, m[cf.Keys[0]+".b"])
				if got, ok := o.Cfg[i.ID][cf.Field]; ok && got != want {
					vs = append(vs, v("C15", "prefix-bound-struct-differs", i.ID+"."+cf.Field, fmt.Sprintf("%s.%s bound by prefix %q holds %s, the reference merge gives %s", i.ID, cf.Field, cf.Keys[0], got, want)))
				}
			}
		}
	}
	return vs
}

func describeSources(p *sdl.Program) string {
	var parts []string
	for _, s := range p.Sources {
		parts = append(parts, fmt.Sprintf("%s:%s/%s/%s%d", s.ID, s.Kind, s.Via, s.OrderClass, s.Order))
	}
	return strings.Join(parts, " ")
}

// confExpect is what the menu evaluator demands of one configuration field.
type confExpect struct {
	Open    bool   // not judged (missing keys inside an expression etc.)
	Missing bool   // no value and no default
	Value   string // formatted bound value
	Violate bool   // the bound value violates the validate constraint
}

// PresetInt / PresetStr are the values of application-preset configuration fields.
const (
	PresetInt = 7
	PresetStr = "vp"
)

func evalConf(cf *sdl.Conf, cfg map[string]string) confExpect { return evalConfP(cf, cfg, false) }

// evalConfFor evaluates the field for one instance (whose fields the application may have preset).
func evalConfFor(i *sdl.Instance, cf *sdl.Conf, cfg map[string]string) confExpect {
	return evalConfP(cf, cfg, i != nil && i.PresetCfg)
}

func evalConfP(cf *sdl.Conf, cfg map[string]string, preset bool) confExpect {
	var e confExpect
	zero := "0"
	switch cf.GoType {
	case "string":
		zero = ""
	case "ints":
		zero = "[]"
	case "intp":
		zero = "<nil>"
	case "bool":
		zero = "false"
	case "dur":
		zero = "0s"
	case "strmap":
		zero = "map[]"
	}
	val := ""
	switch cf.Menu {
	case "value", "prop", "valueDef", "propDef":
		v, ok := cfg[cf.Keys[0]]
		if !ok {
			if cf.Default != "" {
				v, ok = cf.Default, true
			}
		}
		if !ok {
			e.Missing = true
			val = zero
			if preset && cf.GoType == "int" {
				val = strconv.Itoa(PresetInt)
			}
			if preset && cf.GoType == "string" {
				val = PresetStr
			}
		} else {
			val = v
		}
	case "div":
		a, okA := cfg[cf.Keys[0]]
		b, okB := cfg[cf.Keys[1]]
		x, _ := strconv.Atoi(a)
		y, _ := strconv.Atoi(b)
		if !okA || !okB || y == 0 {
			e.Open = true
			return e
		}
		val = strconv.FormatFloat(float64(x)/float64(y), 'g', -1, 64)
	case "sum", "mul":
		a, okA := cfg[cf.Keys[0]]
		b, okB := cfg[cf.Keys[1]]
		if !okA || !okB {
			e.Open = true
			return e
		}
		x, _ := strconv.Atoi(a)
		y, _ := strconv.Atoi(b)
		if cf.Menu == "sum" {
			val = strconv.Itoa(x + y)
		} else {
			val = strconv.Itoa(x * y)
		}
	case "indirect":
		// ${other.f} is substituted by a value that consists of three more placeholders
		_, okF := cfg[cf.Keys[0]]
		a, okA := cfg["sim.a"]
		b, okB := cfg["sim.b"]
		c, okC := cfg["sim.c"]
		if !okF || !okA || !okB || !okC {
			e.Open = true
			return e
		}
		x, _ := strconv.Atoi(a)
		y, _ := strconv.Atoi(b)
		z, _ := strconv.Atoi(c)
		val = strconv.Itoa(x + y + z)
	case "sumDef":
		a, okA := cfg[cf.Keys[0]]
		if !okA {
			a = cf.Default
		}
		b, okB := cfg[cf.Keys[1]]
		if !okB {
			e.Open = true
			return e
		}
		x, _ := strconv.Atoi(a)
		y, _ := strconv.Atoi(b)
		val = strconv.Itoa(x + y)
	case "concatPad":
		x, ok := cfg[cf.Keys[0]]
		if !ok {
			e.Open = true
			return e
		}
		val = x + ":  "
	case "cmp", "tern", "concat", "affine", "and", "mod":
		var xs []string
		for _, k := range cf.Keys {
			x, ok := cfg[k]
			if !ok {
				e.Open = true
				return e
			}
			xs = append(xs, x)
		}
		num := func(i int) int { n, _ := strconv.Atoi(xs[i]); return n }
		switch cf.Menu {
		case "cmp":
			val = strconv.FormatBool(num(0) > num(1))
		case "tern":
			if num(0) > 3 {
				val = xs[1]
			} else {
				val = xs[2]
			}
		case "concat":
			val = xs[0] + xs[1]
		case "affine":
			val = strconv.Itoa(num(0)*num(1) + num(2))
		case "and":
			n, _ := strconv.Atoi(cf.Default)
			val = strconv.FormatBool(num(0) == n && xs[1] == "va")
		case "mod":
			val = strconv.Itoa(num(0) % 3)
		}
	case "sumDef2":
		// each placeholder falls back to its OWN default, and only when its own key is absent
		a, okA := cfg[cf.Keys[0]]
		if !okA {
			a = cf.Default
		}
		b, okB := cfg[cf.Keys[1]]
		if !okB {
			b = cf.Default2
		}
		x, _ := strconv.Atoi(a)
		y, _ := strconv.Atoi(b)
		val = strconv.Itoa(x + y)
	case "nested":
		sel, okS := cfg["other.sel"]
		a, okA := cfg["sim."+sel]
		b, okB := cfg[cf.Keys[0]]
		if !okS || !okA || !okB {
			e.Open = true
			return e
		}
		x, _ := strconv.Atoi(a)
		y, _ := strconv.Atoi(b)
		val = strconv.Itoa(x + y)
	case "prefixInt", "prefixStr":
		v, ok := cfg[cf.Keys[0]]
		if !ok {
			e.Missing = true
			val = zero
			if preset && cf.GoType == "int" {
				val = strconv.Itoa(PresetInt)
			}
			if preset && cf.GoType == "string" {
				val = PresetStr
			}
		} else {
			val = v
		}
	case "prefixReq":
		// struct{ Inner struct{ A int } `validate:"required"`; B string }: a required struct member
		// is violated exactly when it is all zero
		a, okA := cfg[cf.Keys[0]+".inner.a"]
		b, okB := cfg[cf.Keys[0]+".b"]
		if !okA && !okB {
			e.Missing = true
			e.Value = "{0 }"
			if cf.Validate == "struct" {
				e.Violate = true // nothing is bound: the zero struct is what validation sees
			}
			return e
		}
		if !okA {
			a = "0"
		}
		e.Value = fmt.Sprintf("{%s %s}", a, b)
		if cf.Validate == "struct" {
			x, _ := strconv.Atoi(a)
			e.Violate = x == 0
		}
		return e
	case "prefixNest":
		// struct{ Inner *struct{ A int `validate:"min=3"` }; B string }: Inner stays nil unless
		// the configuration supplies something below it
		a, okA := cfg[cf.Keys[0]+".inner.a"]
		b, okB := cfg[cf.Keys[0]+".b"]
		if !okA && !okB {
			e.Missing = true
			e.Value = "{nil }"
			return e
		}
		if okA {
			e.Value = fmt.Sprintf("{%s %s}", a, b)
			if cf.Validate == "struct" {
				x, _ := strconv.Atoi(a)
				e.Violate = x < 3
			}
		} else {
			e.Value = fmt.Sprintf("{nil %s}", b)
		}
		return e
	case "prefixStructV":
		a, okA := cfg[cf.Keys[0]+".a"]
		b, okB := cfg[cf.Keys[0]+".b"]
		if !okA && !okB {
			e.Missing = true
		}
		if a == "" {
			a = "0"
		}
		e.Value = fmt.Sprintf("{%s %s}", a, b)
		if cf.Validate == "struct" {
			x, _ := strconv.Atoi(a)
			e.Violate = x < 3 // the struct's own field tag: A validate:"min=3"
		}
		return e
	case "typePrefix":
		// an untagged nil pointer to a struct whose type names its prefix: bound like a
		// required prefix field
		a, okA := cfg[cf.Keys[0]+".a"]
		b, okB := cfg[cf.Keys[0]+".b"]
		if !okA && !okB {
			e.Missing = true
			e.Value = "<nil>"
			return e
		}
		if a == "" {
			a = "0"
		}
		e.Value = fmt.Sprintf("&{%s %s}", a, b)
		return e
	case "typePrefixDyn":
		// an untagged pointer the application has set to a holder that names its own section
		a, okA := cfg[cf.Keys[0]+".a"]
		b, okB := cfg[cf.Keys[0]+".b"]
		if !okA && !okB {
			e.Missing = true
			e.Value = "&{" + cf.Keys[0] + " 0 }"
			return e
		}
		if a == "" {
			a = "0"
		}
		e.Value = fmt.Sprintf("&{ %s %s}", a, b)
		return e
	case "prefixStruct":
		a, okA := cfg[cf.Keys[0]+".a"]
		b, okB := cfg[cf.Keys[0]+".b"]
		if !okA && !okB {
			e.Missing = true
		}
		if a == "" {
			a = "0"
		}
		e.Value = fmt.Sprintf("{%s %s}", a, b)
		return e
	case "literal":
		val = cf.Default
	}
	e.Value = val
	if cf.Validate != "" {
		for _, c := range strings.Fields(cf.Validate) {
			name, arg, _ := strings.Cut(c, "=")
			if name == "omitempty" {
				// a modifier: an empty (zero) value is exempt from the constraints after it
				if val == zero {
					break
				}
				continue
			}
			if cf.GoType == "int" {
				x, _ := strconv.Atoi(val)
				n, _ := strconv.Atoi(arg)
				switch name {
				case "min", "gte":
					e.Violate = e.Violate || x < n
				case "max", "lte":
					e.Violate = e.Violate || x > n
				case "required":
					e.Violate = e.Violate || x == 0
				case "gt":
					e.Violate = e.Violate || !(x > n)
				case "lt":
					e.Violate = e.Violate || !(x < n)
				case "eq":
					e.Violate = e.Violate || x != n
				case "ne":
					e.Violate = e.Violate || x == n
				}
			} else {
				n, _ := strconv.Atoi(arg)
				switch name {
				case "eq":
					e.Violate = e.Violate || val != arg
				case "ne":
					e.Violate = e.Violate || val == arg
				case "required":
					e.Violate = e.Violate || val == ""
				case "len":
					e.Violate = e.Violate || len(val) != n
				case "min":
					e.Violate = e.Violate || len(val) < n
				case "max":
					e.Violate = e.Violate || len(val) > n
				}
			}
		}
	}
	return e
}

// CheckConfigStages is the C18 oracle: expressions see substituted placeholders, the field
// receives the result, validation sees the bound value; Run fails exactly when a bound value
// violates its constraint (or a required value is missing).
func (w *World) CheckConfigStages(o *Obs) []Violation {
	var vs []Violation
	p := w.P
	if ActiveFault(p) != "" || w.hasSubst() {
		return nil
	}
	merges := AllMerges(p)
	if len(merges) != 1 {
		// ambiguous loader order: judge only if all admissible merges agree
		for _, m := range merges[1:] {
			if fmt.Sprint(m) != fmt.Sprint(merges[0]) {
				return nil
			}
		}
	}
	cfg := map[string]string{}
	if len(merges) != 0 {
		cfg = merges[0]
	}
	// the configuration a component created after Run sees: initialization callbacks may have
	// changed it (Configure.Set); with several writers of one key the result is order-dependent
	cfgLate, lateOpen := map[string]string{}, false
	for k, x := range cfg {
		cfgLate[k] = x
	}
	hasPoints := false
	for _, t := range p.Types {
		hasPoints = hasPoints || len(t.Points) != 0
	}
	{
		writers := map[string]int{}
		for _, i := range p.Instances {
			if i.SetKey != "" {
				writers[i.SetKey]++
				cfgLate[i.SetKey] = strconv.Itoa(i.SetVal)
				if w.Types[i.Type].Lazy || !(w.Types[i.Type].Init || w.Types[i.Type].APS) {
					lateOpen = true
				}
			}
		}
		for _, n := range writers {
			if n > 1 {
				lateOpen = true
			}
		}
	}
	mustFail, open := "", false
	type exp struct {
		inst  string
		cf    *sdl.Conf
		e     confExpect
		lazyT bool
	}
	var exps []exp
	for _, i := range p.Instances {
		t := w.Types[i.Type]
		for _, cf := range t.Config {
			e := evalConfFor(i, cf, cfg)
			exps = append(exps, exp{i.ID, cf, e, t.Lazy})
			if t.Lazy {
				// created during Run only if something depends on it
				if hasPoints {
					open = true
				}
				continue
			}
			if e.Open {
				open = true
				continue
			}
			if e.Missing && !cf.Optional && mustFail == "" {
				mustFail = fmt.Sprintf("%s.%s: required configuration value is missing", i.ID, cf.Field)
			}
			if e.Violate && cf.Menu != "prefixStruct" && mustFail == "" {
				mustFail = fmt.Sprintf("%s.%s: bound value %q violates validate=%s", i.ID, cf.Field, e.Value, cf.Validate)
			}
		}
	}
	if len(exps) == 0 {
		return nil
	}
	// wiring problems are not this property's business
	out := w.StartOutcome()
	if out.Verdict != MustSucceed {
		return nil
	}
	switch {
	case mustFail != "":
		if o.OK() {
			vs = append(vs, v("C18", "constraint-violated-but-started", mustFail, fmt.Sprintf("%s, yet Run returned nil (field values: %v)", mustFail, o.Cfg)))
		}
		if o.Panic != "" {
			vs = append(vs, v("C18", "config-panic", mustFail, "Run panicked: "+o.Panic))
		}
	case !open:
		if !o.OK() {
			vs = append(vs, v("C18", "constraints-hold-but-start-failed", "", fmt.Sprintf("every bound value satisfies its constraint and no required value is missing, but Run failed: err=%q panic=%q", o.ErrText, o.Panic)))
		}
	}
	if o.OK() && !lateOpen && !hasPoints {
		// lazy components: created by a lookup that followed Run, over the configuration of that
		// moment. Round 1 right after Run; then the application may change a key (PostSet) and
		// look the components up once more (round 2): one that was created in round 1 stays as
		// it is, one whose creation failed is attempted again over the new configuration.
		cfg2 := map[string]string{}
		for k, x := range cfgLate {
			cfg2[k] = x
		}
		if p.PostSetKey != "" {
			cfg2[p.PostSetKey] = strconv.Itoa(p.PostSetVal)
		}
		exprMenu := func(m string) bool {
			return m == "sum" || m == "mul" || m == "nested" || m == "sumDef" || m == "sumDef2" || m == "div" || m == "concatPad" || m == "cmp" || m == "tern" || m == "concat" || m == "affine" || m == "and" || m == "mod" || m == "indirect"
		}
		judge := func(inst string, t *sdl.Type, round int, cfgR map[string]string, l LookupObs, got map[string]string) (created, judged bool) {
			bad, why := false, ""
			for _, cf := range t.Config {
				e := evalConfFor(w.Insts[inst], cf, cfgR)
				if e.Open {
					return !l.Err, false
				}
				if e.Missing && !cf.Optional || e.Violate && cf.Menu != "prefixStruct" {
					if !bad {
						why = fmt.Sprintf("%s (value %q, validate=%s, missing=%v)", cf.Field, e.Value, cf.Validate, e.Missing)
					}
					bad = true
				}
			}
			if l.Panic != "" {
				vs = append(vs, v("C18", "config-panic", inst, fmt.Sprintf("lookup round %d of lazy component %s panicked: %s", round, inst, l.Panic)))
				return false, true
			}
			if bad {
				if !l.Err {
					vs = append(vs, v("C18", "constraint-violated-but-created", inst, fmt.Sprintf("lazy component %s was created by lookup round %d after Run although %s must make its creation fail; configuration at that time %v", inst, round, why, cfgR)))
				}
				return !l.Err, true
			}
			if l.Err {
				vs = append(vs, v("C18", "constraints-hold-but-creation-failed", inst, fmt.Sprintf("lookup round %d of lazy component %s failed although every value bound over the configuration of that moment satisfies its constraint and no required value is missing: %v", round, inst, cfgR)))
				return false, true
			}
			for _, cf := range t.Config {
				e := evalConfFor(w.Insts[inst], cf, cfgR)
				if g, ok := got[cf.Field]; ok && g != e.Value {
					oracle := "bound-value-differs"
					if exprMenu(cf.Menu) {
						oracle = "expression-result-differs"
					}
					vs = append(vs, v("C18", oracle, inst+"."+cf.Field, fmt.Sprintf("lazy component %s was created by lookup round %d after Run; %s (%s %v default=%q) holds %q, the menu evaluator gives %q over the configuration of that moment %v", inst, round, cf.Field, cf.Menu, cf.Keys, cf.Default, g, e.Value, cfgR)))
				}
			}
			return true, true
		}
		for _, i := range p.Instances {
			t := w.Types[i.Type]
			l1, looked := o.Lookup[i.ID]
			if !t.Lazy || !looked || len(t.Config) == 0 {
				continue
			}
			created, judged := judge(i.ID, t, 1, cfgLate, l1, o.CfgLate[i.ID])
			l2, looked2 := o.Lookup2[i.ID]
			if !looked2 || !judged {
				continue
			}
			if created {
				// published: round 2 returns the same instance, untouched
				if l2.Err || l2.Panic != "" || l2.Target != l1.Target {
					vs = append(vs, v("C18", "published-lazy-component-changed", i.ID, fmt.Sprintf("lazy component %s was created in lookup round 1; round 2 returned target=%q err=%v panic=%q instead of the same instance %q", i.ID, l2.Target, l2.Err, l2.Panic, l1.Target)))
				} else if fmt.Sprint(o.CfgLate2[i.ID]) != fmt.Sprint(o.CfgLate[i.ID]) {
					vs = append(vs, v("C18", "published-lazy-component-changed", i.ID, fmt.Sprintf("the configuration fields of %s changed between lookup rounds although it was not created again: %v -> %v", i.ID, o.CfgLate[i.ID], o.CfgLate2[i.ID])))
				}
				continue
			}
			judge(i.ID, t, 2, cfg2, l2, o.CfgLate2[i.ID])
		}
	}
	if o.OK() {
		for _, x := range exps {
			if x.e.Open || x.lazyT {
				continue
			}
			got, ok := o.Cfg[x.inst][x.cf.Field]
			if !ok {
				continue
			}
			if got != x.e.Value {
				oracle := "bound-value-differs"
				if x.cf.Menu == "sum" || x.cf.Menu == "mul" || x.cf.Menu == "nested" || x.cf.Menu == "sumDef" || x.cf.Menu == "sumDef2" || x.cf.Menu == "div" || x.cf.Menu == "concatPad" || x.cf.Menu == "cmp" || x.cf.Menu == "tern" || x.cf.Menu == "concat" || x.cf.Menu == "affine" || x.cf.Menu == "and" || x.cf.Menu == "mod" || x.cf.Menu == "indirect" {
					oracle = "expression-result-differs"
				}
				vs = append(vs, v("C18", oracle, x.inst+"."+x.cf.Field, fmt.Sprintf("%s.%s (%s %v default=%q) holds %q, the menu evaluator gives %q over configuration %v", x.inst, x.cf.Field, x.cf.Menu, x.cf.Keys, x.cf.Default, got, x.e.Value, cfg)))
			}
		}
	}
	return vs
}

// checkMergeStage compares the observed leaves with the admissible merges.
func (w *World) checkMergeStage(got map[string]string, merges []map[string]string, when string) []Violation {
	var vs []Violation
	p := w.P
	if got == nil {
		return nil
	}
	for _, path := range AllLeafPaths(p) {
		g := got[path]
		adm := map[string]bool{}
		for _, m := range merges {
			if v, ok := m[path]; ok {
				adm[v] = true
			} else {
				adm["<nil>"] = true
			}
		}
		if adm[g] {
			continue
		}
		var who []string
		for _, s := range p.Sources {
			if v, ok := FlattenDoc(s.Doc)[path]; ok {
				late := ""
				if s.Late {
					late = " late"
				}
				who = append(who, fmt.Sprintf("%s(%s via %s%s)=%s", s.ID, s.Kind, s.Via, late, v))
			}
		}
		oracle := "wrong-precedence"
		if g == "<nil>" {
			oracle = "key-lost"
		}
		vs = append(vs, v("C15", oracle, path, fmt.Sprintf("App.Get(%q) = %s%s, the reference merge admits %v; supplied by %v; sources in option order: %s", path, g, when, sdl.SortedKeys(adm), who, describeSources(p))))
	}
	return vs
}

// ConfigDemand evaluates every configuration field of every eagerly created component with
// the menu evaluator: "must-fail" (+ why) if a required value is missing or a bound value
// violates its constraint, "open" if some field cannot be judged (ambiguous loader order, a
// key missing inside an expression, a lazy component that may or may not be created), ""
// if every field is satisfied.
func (w *World) ConfigDemand() (string, string) {
	p := w.P
	merges := AllMerges(p)
	for _, m := range merges[min(1, len(merges)):] {
		if fmt.Sprint(m) != fmt.Sprint(merges[0]) {
			return "open", ""
		}
	}
	cfg := map[string]string{}
	if len(merges) != 0 {
		cfg = merges[0]
	}
	res, why := "", ""
	for _, i := range p.Instances {
		t := w.Types[i.Type]
		for _, cf := range t.Config {
			e := evalConfFor(i, cf, cfg)
			bad := e.Missing && !cf.Optional || e.Violate && cf.Menu != "prefixStruct"
			switch {
			case t.Lazy:
				if (bad || e.Open) && res == "" {
					res = "open"
				}
			case e.Open:
				if res == "" {
					res = "open"
				}
			case bad:
				if res != "must-fail" {
					res = "must-fail"
					if e.Missing && !cf.Optional {
						why = fmt.Sprintf("%s.%s: required configuration value is missing", i.ID, cf.Field)
					} else {
						why = fmt.Sprintf("%s.%s: bound value %q violates validate=%s", i.ID, cf.Field, e.Value, cf.Validate)
					}
				}
			}
		}
	}
	for _, i := range p.Instances {
		if i.SetKey != "" && res == "" {
			res = "open" // the configuration changes while the container runs
		}
	}
	return res, why
}

// secondPass returns the sources as the second initialisation of the configuration sees
// them: a loader whose order is settled late answers with that order.
func secondPass(act []*sdl.Source) []*sdl.Source {
	out := make([]*sdl.Source, len(act))
	for i, s := range act {
		if s.Order2 != nil || s.Doc2 != nil {
			c := *s
			if s.Order2 != nil {
				c.Order = *s.Order2
			}
			if s.Doc2 != nil {
				c.Doc = s.Doc2 // a source whose content has changed by then
			}
			s = &c
		}
		out[i] = s
	}
	return out
}
