package model

import (
	"fmt"
	"sort"
	"strings"

	"verifsim/sdl"
)

func upFirst(s string) string {
	if s == "" {
		return s
	}
	return strings.ToUpper(s[:1]) + s[1:]
}

func recKey(comp, field, val string, args [][]string) string {
	var as []string
	for _, a := range args {
		as = append(as, upFirst(a[0])+"("+strings.Join(a[1:], ",")+")")
	}
	sort.Strings(as)
	return fmt.Sprintf("%s.%s=%q%v", comp, field, val, as)
}

// CheckFrameAndTags is the per-run half of C11: nothing but recognised, exported, tagged
// fields was written, and every custom tag scanner received exactly the exported fields
// carrying its tag (embedded ones included) with the tag's value and arguments.
func (w *World) CheckFrameAndTags(o *Obs) []Violation {
	var vs []Violation
	for _, f := range o.Frame {
		vs = append(vs, v("C11", "frame-field-modified", strings.Fields(f)[0], f))
	}
	if o.OK() {
		cr := w.Created(o)
		for _, id := range sdl.SortedKeys(o.LoggerSet) {
			if cr[id] && !o.LoggerSet[id] {
				vs = append(vs, v("C11", "logger-field-not-set", id, fmt.Sprintf("created component %s has an exported field tagged logger:\"\" (carrier chain %v) that was not set", id, w.Types[w.Insts[id].Type].LogEmbed)))
			}
		}
	}
	if o.OK() {
		// a tag's value belongs to its own field: the explicit prefix goes to the field that
		// carries it, the field tagged logger:"" gets the component's default one
		cr := w.Created(o)
		for _, id := range sdl.SortedKeys(o.LoggerPref) {
			t := w.Types[w.Insts[id].Type]
			if !cr[id] || t.Logger2 == "" {
				continue
			}
			lp := o.LoggerPref[id]
			if lp[1] != t.Logger2 {
				vs = append(vs, v("C11", "logger-prefix-differs", id, fmt.Sprintf("field Log2 of %s is tagged logger:%q but was given the logger for prefix %q", id, t.Logger2, lp[1])))
			}
			if lp[0] == t.Logger2 || lp[0] == "" || lp[0] == "<nil>" {
				vs = append(vs, v("C11", "logger-prefix-leaks", id, fmt.Sprintf("field Log of %s is tagged logger:\"\" (the component's default prefix) but was given the logger for prefix %q; its neighbour Log2 (declared first: %v) carries the explicit prefix %q", id, lp[0], t.Log2First, t.Logger2)))
			}
		}
	}
	if o.TagRecords == nil || !o.OK() {
		return vs
	}
	created := w.Created(o)
	for _, sc := range w.P.Scanners {
		want := map[string]int{}
		for _, i := range w.P.Instances {
			if !created[i.ID] {
				continue
			}
			for _, cu := range w.Types[i.Type].Custom {
				if cu.Tag == sc.Tag && cu.Exported && (cu.Via != "handler" || sc.Handler) {
					want[recKey(w.P.NameOf(i), cu.Field, cu.Val, cu.Args)]++
				}
			}
			for _, cf := range w.Types[i.Type].Config {
				if cf.Also != nil && cf.Also.Tag == sc.Tag {
					want[recKey(w.P.NameOf(i), cf.Field, cf.Also.Val, cf.Also.Args)]++
				}
			}
		}
		got := map[string]int{}
		for _, r := range o.TagRecords[sc.ID] {
			if w.instByName(r.Comp) == "" {
				continue
			}
			got[recKey(r.Comp, r.Field, r.Val, r.Args)]++
		}
		for _, k := range sdl.SortedKeys(want) {
			if got[k] != want[k] {
				vs = append(vs, v("C11", "custom-tag-field-not-received", sc.Tag, fmt.Sprintf("scanner for tag %q should receive %s exactly %d time(s), received it %d time(s); all received: %v", sc.Tag, k, want[k], got[k], sdl.SortedKeys(got))))
			}
		}
		for _, k := range sdl.SortedKeys(got) {
			if want[k] == 0 {
				vs = append(vs, v("C11", "custom-tag-field-unexpected", sc.Tag, fmt.Sprintf("scanner for tag %q received %s which is not an exported field carrying that tag with that value/arguments; expected: %v", sc.Tag, k, sdl.SortedKeys(want))))
			}
		}
	}
	return vs
}

// CheckTwins compares a flat program's run with its embedded twin's run under the same
// picks: identical outcome, wiring per point, bound configuration and tag records.
func CheckTwins(pFlat *sdl.Program, cfg map[string]string, flat, emb *Obs) []Violation {
	var vs []Violation
	w := NewWorld(pFlat, cfg)
	out := w.StartOutcome()
	cf, ce := w.Created(flat), map[string]bool{}
	for _, c := range emb.Reg {
		if c.Op == "goc-exit" && !c.Err && c.Ref != 0 && (emb.EndOfRun <= 0 || c.Seq <= emb.EndOfRun) {
			// names of the embedded twin differ only in the type-name prefix of default names
			for _, i := range pFlat.Instances {
				if i.Alias != "" && i.Alias == c.Name || i.Alias == "" && strings.HasSuffix(c.Name, i.Type[strings.Index(i.Type, "T"):]) {
					ce[i.ID] = true
				}
			}
		}
	}
	outcome := func(o *Obs) string {
		switch {
		case o.Stuck || o.OverSteps:
			return "stuck"
		case o.Panic != "":
			return "panic"
		case o.RunErr:
			return "error"
		}
		return "ok"
	}
	if outcome(flat) != outcome(emb) {
		vs = append(vs, v("C11", "twin-outcome-differs", "", fmt.Sprintf("flat program ended %s (%s%s), its embedded re-arrangement ended %s (%s%s)", outcome(flat), flat.ErrText, flat.Panic, outcome(emb), emb.ErrText, emb.Panic)))
		return vs
	}
	for _, h := range sdl.SortedKeys(flat.Points) {
		if !cf[h] || !ce[h] {
			continue // created in one twin only (reachable through a tied choice)
		}
		for _, f := range sdl.SortedKeys(flat.Points[h]) {
			if r := out.Res[h][f]; r != nil && (r.Tied || r.DontCare) {
				continue // several equally ranked candidates: the choice may vary
			}
			a := strings.Join(sortedCopy(flat.Points[h][f]), ",")
			b := strings.Join(sortedCopy(emb.Points[h][f]), ",")
			if a != b {
				vs = append(vs, v("C11", "twin-wiring-differs", h+"."+f, fmt.Sprintf("point %s.%s holds [%s] when declared directly and [%s] when declared inside embedded structs", h, f, a, b)))
			}
		}
	}
	for _, h := range sdl.SortedKeys(flat.Cfg) {
		if !cf[h] || !ce[h] {
			continue
		}
		for _, f := range sdl.SortedKeys(flat.Cfg[h]) {
			if flat.Cfg[h][f] != emb.Cfg[h][f] {
				vs = append(vs, v("C11", "twin-config-differs", h+"."+f, fmt.Sprintf("configuration field %s.%s is %q when declared directly and %q when declared inside embedded structs", h, f, flat.Cfg[h][f], emb.Cfg[h][f])))
			}
		}
	}
	for _, sc := range sdl.SortedKeys(flat.TagRecords) {
		// only components created in both twins (a lazy component may be reached through a
		// tied choice in one twin only); default names differ in the type-name prefix, so
		// records are keyed by instance id
		both := func(name string, p *sdl.Program) string {
			for _, i := range pFlat.Instances {
				if (i.Alias != "" && i.Alias == name) || (i.Alias == "" && strings.HasSuffix(name, i.Type[strings.Index(i.Type, "T"):]) && strings.HasPrefix(name, sdl.PkgPath)) {
					if cf[i.ID] && ce[i.ID] {
						return i.ID
					}
				}
			}
			return ""
		}
		ka, kb := map[string]int{}, map[string]int{}
		for _, r := range flat.TagRecords[sc] {
			if id := both(r.Comp, pFlat); id != "" {
				ka[recKey(id, r.Field, r.Val, r.Args)]++
			}
		}
		for _, r := range emb.TagRecords[sc] {
			if id := both(r.Comp, pFlat); id != "" {
				kb[recKey(id, r.Field, r.Val, r.Args)]++
			}
		}
		if len(ka) != len(kb) {
			vs = append(vs, v("C11", "twin-tag-records-differ", sc, fmt.Sprintf("scanner %s received %d distinct fields in the flat program and %d in the embedded one", sc, len(ka), len(kb))))
		}
	}
	return vs
}
