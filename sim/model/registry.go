package model

import (
	"fmt"
	"sort"
	"strings"

	"verifsim/sdl"
)

// CheckRegistryTrace is the C04 reference state machine, run over a recorded history of
// calls on the singleton cache (from real starts through the tracer, or from regsim's
// direct histories). Per name it tracks: published reference, whether a creation attempt is
// running, the early reference handed out in the running attempt, how often the early
// factory of the running attempt was invoked, and whether the last attempt failed.
func CheckRegistryTrace(calls []RegCall) []Violation {
	type st struct {
		pub      int
		creating int // nesting count of running attempts (1 in legal histories)
		early    int
		ef       int
		failed   bool
		lastFacx int
		hasF     bool         // an early-reference factory was registered in the running attempt
		facErr   bool         // the factory body of the attempt that just ended returned an error
		attProx  []int        // wrapped versions (proxies) handed out during the running attempt
		deadProx map[int]bool // wrapped versions that failed attempts had created
		pubInAtt bool         // the running attempt published its own name itself (AddSingleton)
		facSeen  []bool       // stack: did the goc currently running invoke its factory?
	}
	states := map[string]*st{}
	get := func(n string) *st {
		s := states[n]
		if s == nil {
			s = &st{}
			states[n] = s
		}
		return s
	}
	var vs []Violation
	add := func(oracle, name, detail string, seq int) {
		vs = append(vs, v("C04", oracle, name, fmt.Sprintf("at registry call #%d: %s", seq, detail)))
	}
	for idx, c := range calls {
		s := get(c.Name)
		if c.Proxy && c.Ref != 0 && !c.Err && (c.Op == "efx" || c.Op == "get" || c.Op == "getE" || c.Op == "facx" || c.Op == "goc-exit") {
			if s.deadProx[c.Ref] {
				add("wrapped-version-of-failed-attempt-reused", c.Name, fmt.Sprintf("ref %d, a wrapped version of %q that a FAILED creation attempt had created, came back with a nil error (%s): nothing of a failed attempt may stay visible", c.Ref, c.Name, c.Op), idx)
			} else if s.creating > 0 {
				s.attProx = append(s.attProx, c.Ref)
			}
		}
		switch c.Op {
		case "goc-enter":
			s.facSeen = append(s.facSeen, false)
		case "fac":
			if s.pub != 0 {
				add("factory-rerun-for-published-name", c.Name, fmt.Sprintf("%q is published (ref %d) but get-or-create ran its factory again", c.Name, s.pub), idx)
			}
			if len(s.facSeen) != 0 {
				s.facSeen[len(s.facSeen)-1] = true
			}
			if s.creating > 0 {
				add("created-again-while-in-creation", c.Name, fmt.Sprintf("get-or-create ran the factory of %q although a creation of %q is under way: one singleton goes through creation twice and is published twice", c.Name, c.Name), idx)
			}
			s.creating++
			if s.creating == 1 {
				s.early, s.ef, s.failed, s.hasF, s.pubInAtt = 0, 0, false, false, false
			}
		case "facx":
			s.lastFacx = c.Ref
			s.facErr = c.Err
		case "goc-exit":
			created := false
			if n := len(s.facSeen); n != 0 {
				created = s.facSeen[n-1]
				s.facSeen = s.facSeen[:n-1]
			}
			if created {
				s.creating--
				if s.facErr && !c.Err {
					// the factory failed: whatever the attempt did before (including publishing its
					// own name), the creation has failed and must be reported as failed
					add("failed-creation-reported-success", c.Name, fmt.Sprintf("the factory of %q returned an error, yet get-or-create returned ref %d with a nil error", c.Name, c.Ref), idx)
				}
				if c.Err || s.facErr {
					if c.Ref != 0 {
						add("failed-creation-returned-instance", c.Name, fmt.Sprintf("creation of %q failed but a reference was returned together with the error", c.Name), idx)
					}
					s.failed = true
					s.early, s.ef, s.hasF = 0, 0, false
					if s.deadProx == nil {
						s.deadProx = map[int]bool{}
					}
					for _, r := range s.attProx {
						s.deadProx[r] = true
					}
					s.attProx = nil
					if s.pubInAtt {
						// what the failed attempt published itself is part of the failed attempt
						s.pub, s.pubInAtt = 0, false
					}
				} else {
					if c.Ref == 0 {
						add("creation-returned-nil", c.Name, fmt.Sprintf("creation of %q succeeded but returned nil", c.Name), idx)
					} else if s.lastFacx != 0 && c.Ref != s.lastFacx {
						add("published-instance-differs-from-created", c.Name, fmt.Sprintf("the factory of %q produced ref %d but ref %d was published", c.Name, s.lastFacx, c.Ref), idx)
					}
					s.pub = c.Ref
					s.failed = false
					s.early, s.ef, s.hasF = 0, 0, false
					s.attProx = nil
				}
			} else {
				// no factory call: must be a cache hit of the published instance
				if s.pub == 0 {
					if !c.Err && c.Ref != 0 {
						add("returned-without-creation", c.Name, fmt.Sprintf("get-or-create of %q returned a reference without running the factory although nothing was published", c.Name), idx)
					}
				} else if c.Err || c.Ref != s.pub {
					add("published-instance-not-returned", c.Name, fmt.Sprintf("get-or-create of %q returned ref %d (err=%v) instead of the published ref %d", c.Name, c.Ref, c.Err, s.pub), idx)
				}
			}
		case "get", "getE":
			switch {
			case s.pub != 0:
				if c.Err || c.Ref != s.pub {
					add("published-instance-not-returned", c.Name, fmt.Sprintf("lookup of %q returned ref %d (err=%v) although ref %d is published", c.Name, c.Ref, c.Err, s.pub), idx)
				}
			case s.creating > 0:
				if c.Ref != 0 && !c.Err {
					if s.early == 0 {
						// every early reference is the product of the early-reference factory of
						// THIS creation attempt (recorded just before, by "efx")
						add("early-reference-not-from-this-attempt", c.Name, fmt.Sprintf("%q is in creation and its early-reference factory has not produced anything in this attempt, yet a lookup returned ref %d (a leftover of an earlier attempt)", c.Name, c.Ref), idx)
						s.early = c.Ref
					} else if c.Ref != s.early {
						add("two-early-references", c.Name, fmt.Sprintf("while %q is in creation a lookup returned ref %d, an earlier one ref %d", c.Name, c.Ref, s.early), idx)
					}
				} else if c.Ref == 0 && !c.Err && s.early != 0 {
					add("early-reference-disappeared", c.Name, fmt.Sprintf("while %q is in creation its early reference (ref %d) had already been handed out, yet a later lookup (allowEarly=%v) observed nothing", c.Name, s.early, c.Op == "getE"), idx)
				} else if c.Ref == 0 && !c.Err && c.Op == "getE" && s.hasF && s.creating == 1 {
					add("early-factory-registered-but-lookup-observed-nothing", c.Name, fmt.Sprintf("%q is in creation and has registered its early-reference factory in this attempt, yet a lookup that allows early references returned neither a reference nor an error", c.Name), idx)
				}
			case s.failed:
				if c.Ref != 0 && !c.Err {
					add("failed-attempt-visible", c.Name, fmt.Sprintf("creation of %q failed and no new attempt has run, yet a lookup returned ref %d with a nil error (the half-built instance)", c.Name, c.Ref), idx)
				}
			default:
				if c.Ref != 0 && !c.Err {
					add("lookup-of-unknown-name-returned-instance", c.Name, fmt.Sprintf("lookup of %q returned ref %d although it was never created", c.Name, c.Ref), idx)
				}
			}
		case "ef":
			if s.creating == 0 {
				add("early-factory-after-creation", c.Name, fmt.Sprintf("the early-reference factory of %q was invoked although %q is not in creation", c.Name, c.Name), idx)
			}
		case "efx":
			// an invocation that returned an error produced no early reference; the demand is
			// that at most one early reference is ever produced per creation
			if !c.Err {
				s.ef++
				if s.ef > 1 {
					add("early-factory-invoked-twice", c.Name, fmt.Sprintf("the early-reference factory of %q produced a reference %d times during one creation", c.Name, s.ef), idx)
				}
			}
			if s.creating > 0 && c.Ref != 0 && !c.Err && s.early == 0 {
				s.early = c.Ref
			}
		case "inC":
			want := s.creating > 0
			if c.Bool != want {
				why := "no creation is running"
				if s.failed {
					why = "its creation failed and is over"
				}
				if want {
					why = "its creation is running"
				}
				add("in-creation-mark-wrong", c.Name, fmt.Sprintf("%q reported in-creation=%v although %s", c.Name, c.Bool, why), idx)
			}
		case "add":
			s.pub = c.Ref
			s.failed = false
			s.pubInAtt = s.creating > 0
		case "remove":
			*s = st{facSeen: s.facSeen, creating: s.creating, deadProx: s.deadProx, attProx: s.attProx}
		case "addF":
			if s.creating > 0 {
				s.hasF = true
			}
		}
	}
	return vs
}

// CheckContinuation is the black-box half of C04: lookups on the same App after a failed
// start never return a half-built instance with a nil error.
func (w *World) CheckContinuation(out *Outcome, o *Obs) []Violation {
	var vs []Violation
	if len(o.Cont) == 0 {
		return nil
	}
	// last init event per instance and whether it was faulted
	lastInit := map[string]Ev{}
	for _, e := range o.Events {
		if e.Kind == "init" || e.Kind == "aps" {
			lastInit[e.Kind+e.Subj] = e
		}
	}
	failedDuringRun := map[string]bool{}
	for _, c := range o.Reg {
		if c.Op == "goc-exit" && c.Err && (o.EndOfRun <= 0 || c.Seq <= o.EndOfRun) {
			if id := w.instByName(c.Name); id != "" {
				failedDuringRun[id] = true
			}
		}
	}
	for _, c := range o.Cont {
		if c.Panic != "" {
			vs = append(vs, v("C04", "lookup-after-failure-panic", c.Inst, fmt.Sprintf("GetComponentByName(%s) after a failed start panicked: %s", c.Inst, c.Panic)))
			continue
		}
		if c.InCreation {
			vs = append(vs, v("C04", "still-in-creation-after-failure", c.Inst, fmt.Sprintf("after the failed start (and a lookup) %s is still reported as in creation", c.Inst)))
		}
		if c.Err || c.Target == "" {
			continue
		}
		inst := w.Insts[c.Inst]
		if inst == nil {
			continue
		}
		t := w.Types[inst.Type]
		if w.componentOf(c.Target) != c.Inst {
			vs = append(vs, v("C04", "lookup-after-failure-wrong-component", c.Inst, fmt.Sprintf("lookup of %s returned %s", c.Inst, c.Target)))
			continue
		}
		if w.hasSubst() || !failedDuringRun[c.Inst] {
			// the completeness demand concerns instances whose own creation failed
			continue
		}
		// nothing of the failed attempt stays visible: the re-created instance is wired as a
		// first attempt would have wired it (no candidate left over from the failed attempt)
		for _, pt := range t.Points {
			seen := map[string]int{}
			for _, x := range c.Points[pt.Field] {
				if strings.HasPrefix(x, "?") {
					continue // the container's own components (several may share a type)
				}
				seen[x]++
			}
			for _, x := range sdl.SortedKeys(seen) {
				if seen[x] > 1 {
					vs = append(vs, v("C04", "re-created-instance-carries-leftovers", c.Inst, fmt.Sprintf("the creation of %s failed during Run; the later lookup re-created it, and its point %s now holds %s %d times: candidates resolved by the failed attempt were kept and resolved again", c.Inst, pt.Field, x, seen[x])))
					break
				}
			}
		}
		// returned with a nil error: must be complete
		for _, pt := range t.Points {
			r := out.Res[c.Inst][pt.Field]
			if pt.Optional || r.Empty() || r.DontCare {
				continue
			}
			if len(c.Points[pt.Field]) == 0 {
				vs = append(vs, v("C04", "half-built-instance-returned", c.Inst, fmt.Sprintf("after the failed start GetComponentByName(%s) returned the instance with a nil error although its required point %s is still empty", c.Inst, pt.Field)))
			}
		}
		if t.Init {
			e, ok := lastInit["init"+c.Inst]
			if !ok {
				vs = append(vs, v("C04", "half-built-instance-returned", c.Inst, fmt.Sprintf("after the failed start GetComponentByName(%s) returned the instance with a nil error although its Init never ran", c.Inst)))
			} else if e.Detail == "FAULT" {
				vs = append(vs, v("C04", "half-built-instance-returned", c.Inst, fmt.Sprintf("after the failed start GetComponentByName(%s) returned the instance with a nil error although its last Init (event %d) failed", c.Inst, e.Seq)))
			}
		}
		if t.APS {
			if e, ok := lastInit["aps"+c.Inst]; ok && e.Detail == "FAULT" {
				vs = append(vs, v("C04", "half-built-instance-returned", c.Inst, fmt.Sprintf("after the failed start GetComponentByName(%s) returned the instance with a nil error although its last AfterPropertiesSet failed", c.Inst)))
			}
		}
	}
	return vs
}

// CheckEarlyOnce is the callback-level half of "one early reference per creation": within one
// creation attempt of a component every smart post-processor is asked for its early reference
// at most once (the registry runs the early-reference factory once and hands the result to
// everybody who asks; nobody builds an early reference behind its back).
func (w *World) CheckEarlyOnce(o *Obs) []Violation {
	var vs []Violation
	type span struct{ from, to int }
	attempts := map[string][]span{}
	open := map[string][]int{}
	for _, c := range o.Reg {
		switch c.Op {
		case "fac":
			open[c.Name] = append(open[c.Name], c.Seq)
		case "facx":
			if n := len(open[c.Name]); n != 0 {
				attempts[c.Name] = append(attempts[c.Name], span{open[c.Name][n-1], c.Seq})
				open[c.Name] = open[c.Name][:n-1]
			}
		}
	}
	// indexes by component name (long runs have thousands of attempts: no rescans per attempt)
	type earlyEv struct {
		seq  int
		proc string
	}
	earlies := map[string][]earlyEv{}
	for _, e := range o.Events {
		if e.Kind == "early" {
			if p, n := procOf(e.Subj); n != "" {
				earlies[n] = append(earlies[n], earlyEv{e.Seq, p})
			}
		}
	}
	failedEfx := map[string][]int{}
	for _, c := range o.Reg {
		if c.Op == "efx" && c.Err {
			failedEfx[c.Name] = append(failedEfx[c.Name], c.Seq)
		}
	}
	for _, name := range sdl.SortedKeys(attempts) {
		if w.instByName(name) == "" {
			continue
		}
		evs, fx := earlies[name], failedEfx[name]
		for _, a := range attempts[name] {
			cnt := map[string]int{}
			for i := sort.Search(len(evs), func(i int) bool { return evs[i].seq >= a.from }); i < len(evs) && evs[i].seq <= a.to; i++ {
				cnt[evs[i].proc]++
			}
			if len(cnt) == 0 {
				continue
			}
			// an invocation of the early-reference factory that ended in an error produced nothing;
			// the next request runs it again
			failedRuns := 0
			for i := sort.SearchInts(fx, a.from); i < len(fx) && fx[i] <= a.to; i++ {
				failedRuns++
			}
			for _, p := range sdl.SortedKeys(cnt) {
				if cnt[p] > 1+failedRuns {
					vs = append(vs, v("C04", "early-reference-built-more-than-once", name, fmt.Sprintf("within one creation of %s (registry events %d..%d) processor %s was asked for the early reference %d times: an early reference was built outside the one the cache hands out", name, a.from, a.to, p, cnt[p])))
				}
			}
		}
	}
	return vs
}
