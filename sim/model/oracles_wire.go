package model

import (
	"fmt"
	"sort"
	"strings"

	"verifsim/sdl"
)

func v(prop, oracle, key, detail string) Violation {
	return Violation{Property: prop, Oracle: oracle, Key: key, Detail: detail}
}

// Created returns the instance ids whose name was published by the singleton cache before
// App.Run returned (reach information taken from the registry trace).
func (w *World) Created(o *Obs) map[string]bool {
	out := map[string]bool{}
	for _, c := range o.Reg {
		if c.Op == "goc-exit" && !c.Err && c.Ref != 0 && (o.EndOfRun <= 0 || c.Seq <= o.EndOfRun) {
			if ids := w.ByName[c.Name]; len(ids) != 0 {
				out[ids[0]] = true
			}
		}
	}
	return out
}

func setOf(xs []string) map[string]bool {
	m := map[string]bool{}
	for _, x := range xs {
		m[x] = true
	}
	return m
}

func sortedCopy(xs []string) []string {
	c := append([]string(nil), xs...)
	sort.Strings(c)
	return c
}

// componentOf maps an observed object id to the component (instance id) it is a version of.
func (w *World) componentOf(obj string) string {
	if strings.HasPrefix(obj, "sub:") {
		slot := strings.TrimPrefix(obj, "sub:")
		slot, _, _ = strings.Cut(slot, "#") // "#n": n-th object of a rule that wraps anew each time
		for _, pr := range w.P.Procs {
			for _, r := range pr.Rules {
				if r.Sub == slot {
					if _, ok := w.Insts[r.Target]; !ok {
						return "" // stands in for a processor's component: none of the program's components
					}
					return r.Target
				}
			}
		}
		return ""
	}
	if _, ok := w.Insts[obj]; ok {
		return obj
	}
	return ""
}

// OK reports a start that returned nil without panicking.
func (o *Obs) OK() bool { return !o.RunErr && o.Panic == "" && !o.Stuck && !o.OverSteps }

// CheckIdentity is the C01 / C03 oracle: after a successful start all holders and the
// by-name lookup see one and the same object per component.
func (w *World) CheckIdentity(o *Obs, prop string) []Violation {
	if !o.OK() {
		return nil
	}
	var out []Violation
	versions := map[string]map[string][]string{} // component -> object id -> where seen
	see := func(obj, where string) {
		if strings.HasPrefix(obj, "?") || obj == "<nil>" {
			out = append(out, v(prop, "foreign-object", where, fmt.Sprintf("%s holds an object the program never supplied (%s)", where, obj)))
			return
		}
		c := w.componentOf(obj)
		if c == "" {
			out = append(out, v(prop, "foreign-object", where, fmt.Sprintf("%s holds unknown object %s", where, obj)))
			return
		}
		if versions[c] == nil {
			versions[c] = map[string][]string{}
		}
		versions[c][obj] = append(versions[c][obj], where)
	}
	createdHolders := w.Created(o)
	// Failed creation attempts and the moment each holder was completed. A holder completed
	// INSIDE an attempt to create X that then failed keeps what that attempt handed out; the
	// container reported the failure to whoever asked for X (an application that swallows that
	// error and later obtains X from a new attempt is outside C01 / C03, see DESIGN.md 13).
	type span struct{ from, to int }
	failed := map[string][]span{}
	doneAt := map[string]int{}
	{
		enter := map[string][]int{}
		for _, c := range o.Reg {
			id := w.instByName(c.Name)
			if id == "" {
				continue
			}
			switch c.Op {
			case "goc-enter":
				enter[id] = append(enter[id], c.Seq)
			case "goc-exit":
				from := 0
				if n := len(enter[id]); n != 0 {
					from = enter[id][n-1]
					enter[id] = enter[id][:n-1]
				}
				if c.Err {
					failed[id] = append(failed[id], span{from, c.Seq})
				} else if _, ok := doneAt[id]; !ok && c.Ref != 0 {
					doneAt[id] = c.Seq
				}
			}
		}
	}
	// ... provided the failure was delivered to the application: the failed attempt lies inside
	// a lookup made by an initialization callback that copes with the error
	var tolerated []span
	{
		open := map[string]int{}
		for _, e := range o.Events {
			switch e.Kind {
			case "init-lookup", "proc-lookup":
				open[e.Subj+">"+e.Detail] = e.Seq
			case "init-lookup-tolerated", "proc-lookup-tolerated":
				tolerated = append(tolerated, span{open[e.Subj+">"+e.Detail], e.Seq})
			}
		}
	}
	insideFailedAttempt := func(holder, comp string) bool {
		d, ok := doneAt[holder]
		if !ok {
			return false
		}
		for _, s := range failed[comp] {
			if s.from < d && d < s.to {
				for _, t := range tolerated {
					if t.from <= s.from && s.to <= t.to {
						return true
					}
				}
			}
		}
		return false
	}
	for _, h := range sdl.SortedKeys(o.Points) {
		if !createdHolders[h] || w.replacedBeforeInstantiation(h) {
			// a component the container never created: whatever its fields hold was put there
			// by the application (hand-wired), not resolved by the container
			continue
		}
		for _, f := range sdl.SortedKeys(o.Points[h]) {
			foreign := false
			if hi := w.Insts[h]; hi != nil {
				for _, pt := range w.Types[hi.Type].Points {
					if pt.Field == f {
						foreign = w.Resolve(hi, pt).Foreign
					}
				}
			}
			for _, obj := range o.Points[h][f] {
				if foreign && strings.HasPrefix(obj, "?") {
					continue // one of the container's own components in an any-typed by-type point
				}
				if w.componentOf(obj) == h && obj != h && w.substitutedAroundInit(h) {
					// the holder holds an early proxy of itself (self-reference through a
					// substitute) and is substituted again around initialization: not judged,
					// see DESIGN.md section 13. With an early substitute only, the proxy the
					// holder received is a version like any other.
					continue
				}
				if c := w.componentOf(obj); c != "" && insideFailedAttempt(h, c) {
					o.LeftoverViews++
					continue
				}
				see(obj, h+"."+f)
			}
		}
	}
	// what a by-name lookup from inside an initialization callback returned: the container does
	// not know who keeps such a result, so it cannot refuse the start when the component is
	// wrapped afterwards - but with no substitution around initialization the early reference
	// it returned is what gets published
	for _, h := range sdl.SortedKeys(o.InitLookups) {
		if !createdHolders[h] {
			continue
		}
		for _, tid := range sdl.SortedKeys(o.InitLookups[h]) {
			if w.substitutedAroundInit(tid) || w.replacedBeforeInstantiation(tid) || tid == h {
				continue
			}
			for _, obj := range o.InitLookups[h][tid] {
				if c := w.componentOf(obj); c != "" && insideFailedAttempt(h, c) {
					continue
				}
				see(obj, "init-lookup("+h+"->"+tid+")")
			}
		}
	}
	// objects returned by the query API GetComponents(InterfaceType(...))
	for _, name := range sdl.SortedKeys(o.ByIface) {
		for _, obj := range o.ByIface[name] {
			see(obj, "GetComponents("+name+")")
		}
	}
	created := w.Created(o)
	for _, id := range sdl.SortedKeys(o.Lookup) {
		l := o.Lookup[id]
		if !created[id] && (l.Err || l.Panic == "" && l.Target == "") {
			// a lazy component that the start did not need is created by this very lookup;
			// that creation may legitimately fail
			continue
		}
		if l.Panic != "" {
			out = append(out, v(prop, "lookup-panic", id, "GetComponentByName panicked after a successful start: "+l.Panic))
			continue
		}
		if l.Err {
			out = append(out, v(prop, "lookup-error", id, "GetComponentByName("+id+") returned an error after a successful start"))
			continue
		}
		if l.Target == "" {
			out = append(out, v(prop, "lookup-nil", id, "GetComponentByName("+id+") returned nil after a successful start"))
			continue
		}
		if c := w.componentOf(l.Target); c != id {
			out = append(out, v(prop, "lookup-wrong-component", id, fmt.Sprintf("lookup of %s returned a version of %q (%s)", id, c, l.Target)))
			continue
		}
		see(l.Target, "lookup("+id+")")
	}
	for _, c := range sdl.SortedKeys(versions) {
		if len(versions[c]) > 1 {
			var parts []string
			for _, obj := range sdl.SortedKeys(versions[c]) {
				parts = append(parts, fmt.Sprintf("%s seen by %v", obj, versions[c][obj]))
			}
			out = append(out, v(prop, "mixed-versions", c, fmt.Sprintf("component %s is visible in %d versions after a successful start: %s", c, len(versions[c]), strings.Join(parts, "; "))))
		}
	}
	return out
}

// CheckTermination is the termination half of C02 (and C09): the run ended within the
// scheduler's step budget and did not get stuck.
func (w *World) CheckTermination(o *Obs, prop string) []Violation {
	var out []Violation
	if o.OverSteps {
		out = append(out, v(prop, "step-budget-exceeded", "", fmt.Sprintf("start-up did not finish within %d scheduler steps", o.Steps)))
	}
	if o.Stuck {
		out = append(out, v(prop, "stuck", "", "start-up blocked with no runnable task (deadlock): "+o.Panic))
	}
	return out
}

// CheckCycles is the C02 oracle for fault-free, substitution-free programs.
func (w *World) CheckCycles(out *Outcome, o *Obs) []Violation {
	vs := w.CheckTermination(o, "C02")
	if o.Stuck || o.OverSteps {
		return vs
	}
	created := w.Created(o)
	// never wired to itself
	for _, h := range sdl.SortedKeys(o.Points) {
		for _, f := range sdl.SortedKeys(o.Points[h]) {
			for _, obj := range o.Points[h][f] {
				if w.componentOf(obj) == h {
					vs = append(vs, v("C02", "wired-to-itself", h+"."+f, fmt.Sprintf("%s.%s holds its own holder", h, f)))
				}
			}
		}
	}
	if out.Verdict == MustSucceed {
		if !o.OK() {
			vs = append(vs, v("C02", "must-succeed-failed", "", fmt.Sprintf("every required point has an admissible target and nothing is substituted, but start-up failed: err=%q panic=%q", o.ErrText, o.Panic)))
			return vs
		}
	}
	if o.OK() {
		for _, i := range w.P.Instances {
			if !created[i.ID] {
				continue
			}
			for _, pt := range w.Types[i.Type].Points {
				r := out.Res[i.ID][pt.Field]
				got := o.Points[i.ID][pt.Field]
				if pt.Optional {
					if r.SelfOnly && len(got) != 0 {
						vs = append(vs, v("C02", "self-only-optional-populated", i.ID+"."+pt.Field, fmt.Sprintf("optional point whose only candidate is its holder holds %v", got)))
					}
					continue
				}
				if r.Empty() {
					// only the self-only case is C02's business (other unsatisfied points: C09)
					if r.SelfOnly {
						vs = append(vs, v("C02", "self-only-required-succeeded", i.ID+"."+pt.Field, fmt.Sprintf("created component %s has required point %s whose only candidate is its own holder, yet start-up succeeded; field holds %v", i.ID, pt.Field, got)))
					}
					continue
				}
				if r.DontCare {
					continue
				}
				if len(got) == 0 {
					vs = append(vs, v("C02", "required-point-empty", i.ID+"."+pt.Field, fmt.Sprintf("start-up succeeded but required point %s.%s is empty; admissible: %v", i.ID, pt.Field, r.Cands)))
					continue
				}
				adm := setOf(r.Cands)
				for _, g := range got {
					if r.Foreign && strings.HasPrefix(g, "?") {
						continue
					}
					if !adm[w.componentOf(g)] {
						vs = append(vs, v("C02", "required-point-wrong-target", i.ID+"."+pt.Field, fmt.Sprintf("%s.%s holds %s, admissible: %v", i.ID, pt.Field, g, r.Cands)))
					}
				}
			}
		}
	}
	return vs
}

// typeCands: components compatible with the point's declared type / selector, before the
// qualifier filter, holder excluded.
func (w *World) typeCands(h *sdl.Instance, pt *sdl.Point) []string {
	q := *pt
	q.Quals = nil
	return w.Resolve(h, &q).Cands
}

// CheckTypeInjection is the C06 oracle.
func (w *World) CheckTypeInjection(out *Outcome, o *Obs) []Violation {
	var vs []Violation
	if o.Points == nil {
		return nil
	}
	created := w.Created(o)
	// `returns=*` asks whether the method exists, nothing more: where no point of the program
	// compares the method's result, the container has no business invoking it
	{
		wildcardOnly, any := true, false
		for _, t := range w.P.Types {
			for _, pt := range t.Points {
				if pt.Sel == sdl.SelFunc && pt.Name == "SimKind" {
					any = true
					if len(pt.Returns) != 1 || pt.Returns[0] != "*" {
						wildcardOnly = false
					}
				}
			}
		}
		if any && wildcardOnly {
			for _, id := range sdl.SortedKeys(o.KindCalls) {
				vs = append(vs, v("C06", "method-invoked-for-an-existence-test", id, fmt.Sprintf("every func point of the program that names SimKind asks for returns=* (the method exists), yet the container invoked SimKind() of %s %d time(s)", id, o.KindCalls[id])))
			}
		}
	}
	// a definition registered programmatically while the container refreshes is a candidate for
	// every component created after that moment; for those created during Run it may or may
	// not have been there yet
	late := map[string]bool{}
	for _, i := range w.P.Instances {
		if i.Contributed && i.ContribBy != "" {
			late[i.ID] = true
		}
	}
	type job struct {
		i        *sdl.Instance
		pt       *sdl.Point
		got      []string
		complete bool
		afterRun bool
	}
	var jobs []job
	for _, i := range w.P.Instances {
		for _, pt := range w.Types[i.Type].Points {
			if pt.Sel == sdl.SelName {
				continue
			}
			jobs = append(jobs, job{i, pt, o.Points[i.ID][pt.Field], o.OK() && created[i.ID], false})
			if pl, ok := o.PointsLate[i.ID]; ok && o.OK() && !created[i.ID] {
				// created by the lookup that followed Run
				jobs = append(jobs, job{i, pt, pl[pt.Field], true, true})
			}
		}
	}
	for _, j := range jobs {
		{
			i, pt, got := j.i, j.pt, j.got
			key := i.ID + "." + pt.Field
			// soundness, on every run
			tc := setOf(w.typeCands(i, pt))
			seen := map[string]int{}
			for _, g := range got {
				c := w.componentOf(g)
				if c == "" && strings.HasPrefix(g, "?") && w.Resolve(i, pt).Foreign {
					continue // the container's own components are registered components too
				}
				if fb, ok := o.Fallbacks[key]; ok && fb == g && !(created[i.ID] && o.OK()) {
					continue // the holder was never populated: the application's fallback is still there
				}
				seen[c]++
				if c == i.ID && !pt.Single() {
					vs = append(vs, v("C06", "slice-contains-holder", key, fmt.Sprintf("slice point %s contains its own holder", key)))
					continue
				}
				if c == i.ID {
					continue // C02's business
				}
				if !tc[c] {
					vs = append(vs, v("C06", "incompatible-component-injected", key, fmt.Sprintf("%s holds %s which is not compatible with the declared type/selector; compatible: %v", key, g, sortedCopy(w.typeCands(i, pt)))))
				}
			}
			for _, c := range sdl.SortedKeys(seen) {
				if seen[c] > 1 {
					vs = append(vs, v("C06", "duplicate-slice-element", key, fmt.Sprintf("%s holds component %s %d times", key, c, seen[c])))
				}
			}
			if pt.Single() && len(got) > 1 {
				vs = append(vs, v("C06", "single-holds-many", key, fmt.Sprintf("%v", got)))
			}
			// completeness, on successful runs, for created holders
			if !j.complete {
				continue
			}
			r := out.Res[i.ID][pt.Field]
			if pt.Single() {
				if (len(r.Cands) != 0 || r.Foreign) && len(got) == 0 && !r.DontCare {
					vs = append(vs, v("C06", "single-point-empty", key, fmt.Sprintf("%s is empty after a successful start although compatible components exist: %v", key, r.Cands)))
				}
				continue
			}
			want := setOf(r.Cands)
			for _, c := range r.Cands {
				if seen[c] == 0 && !(late[c] && !j.afterRun) {
					when := ""
					if j.afterRun {
						when = " (the holder was created by a lookup after Run)"
					}
					vs = append(vs, v("C06", "slice-misses-component", key, fmt.Sprintf("%s lacks %s; expected exactly %v, got %v%s", key, c, r.Cands, got, when)))
				}
			}
			if len(pt.Quals) == 0 {
				for _, c := range sdl.SortedKeys(seen) {
					if !want[c] && c != i.ID && tc[c] {
						vs = append(vs, v("C06", "slice-extra-component", key, fmt.Sprintf("%s holds %s outside the expected set %v", key, c, r.Cands)))
					}
				}
			}
		}
	}
	return vs
}

// CheckQueryByInterface: GetComponents(InterfaceType(I)) after a successful start returns
// every registered component implementing I exactly once (part of C06).
func (w *World) CheckQueryByInterface(o *Obs) []Violation {
	var vs []Violation
	if !o.OK() || o.ByIface == nil || w.hasSubst() {
		return nil
	}
	for k := 0; k < w.P.NIfaces; k++ {
		name := fmt.Sprintf("%sI%d", w.P.ID, k)
		got, ok := o.ByIface[name]
		if !ok || o.ByIfaceErr[name] {
			continue
		}
		want := map[string]bool{}
		for _, i := range w.P.Instances {
			if hasIface(w.Types[i.Type], k) && w.ByName[w.P.NameOf(i)][0] == i.ID {
				want[i.ID] = true
			}
		}
		seen := map[string]int{}
		for _, g := range got {
			seen[w.componentOf(g)]++
		}
		for _, id := range sdl.SortedKeys(want) {
			if seen[id] != 1 {
				vs = append(vs, v("C06", "query-by-interface-incomplete", name, fmt.Sprintf("GetComponents(InterfaceType(%s)) returned %s %d times; implementers: %v, returned: %v", name, id, seen[id], sdl.SortedKeys(want), got)))
			}
		}
		for _, id := range sdl.SortedKeys(seen) {
			if !want[id] {
				vs = append(vs, v("C06", "query-by-interface-unsound", name, fmt.Sprintf("GetComponents(InterfaceType(%s)) returned %s which does not implement it; returned: %v", name, id, got)))
			}
		}
	}
	return vs
}

// CheckByName is the C07 oracle.
func (w *World) CheckByName(out *Outcome, o *Obs) []Violation {
	var vs []Violation
	if out.Verdict == Rejected {
		if o.Panic != "" && !o.RegPanic && !strings.Contains(o.Panic, "duplicate") {
			vs = append(vs, v("C07", "duplicate-name-other-panic", out.Why, "duplicate registration led to an unrelated panic: "+o.Panic))
		}
		// a rejected registration leaves the name with the component registered first
		if o.RegPanic && o.RegOwner != nil {
			pos := map[string]int{}
			for k, id := range o.RegOrder {
				pos[id] = k + 1
			}
			for _, n := range w.Duplicates() {
				owner, ok := o.RegOwner[n]
				if !ok {
					continue
				}
				first := ""
				for _, id := range w.ByName[n] {
					if pos[id] != 0 && (first == "" || pos[id] < pos[first]) {
						first = id
					}
				}
				if first != "" && owner != first {
					vs = append(vs, v("C07", "rejected-duplicate-took-the-name", n, fmt.Sprintf("the registration of a second component under %q was rejected, yet the registry now holds %s under that name instead of %s, which was registered first", n, owner, first)))
				}
			}
		}
		if o.OK() {
			// accepted only if exactly one owner of the name is visible everywhere
			for _, n := range w.Duplicates() {
				owners := map[string]bool{}
				for _, id := range w.ByName[n] {
					if l, ok := o.Lookup[id]; ok && l.Target != "" {
						owners[w.componentOf(l.Target)] = true
					}
				}
				for _, i := range w.P.Instances {
					for _, pt := range w.Types[i.Type].Points {
						if pt.Sel == sdl.SelName && out.Res[i.ID][pt.Field].ReqName == n {
							for _, g := range o.Points[i.ID][pt.Field] {
								owners[w.componentOf(g)] = true
							}
						}
					}
				}
				if len(owners) != 1 {
					vs = append(vs, v("C07", "duplicate-name-accepted", n, fmt.Sprintf("two distinct components were registered under %q and start-up succeeded; owners visible: %v", n, sdl.SortedKeys(owners))))
				}
			}
		}
		return vs
	}
	if o.Points == nil {
		return nil
	}
	created := w.Created(o)
	for _, i := range w.P.Instances {
		for _, pt := range w.Types[i.Type].Points {
			if pt.Sel != sdl.SelName || !pt.Single() {
				continue
			}
			r := out.Res[i.ID][pt.Field]
			got := o.Points[i.ID][pt.Field]
			key := i.ID + "." + pt.Field
			// whatever arrived must be the named component
			for _, g := range got {
				if ps, ok := o.Presets[key]; ok && ps == g {
					continue // the application's own object, judged below (must stay)
				}
				if fb, ok := o.Fallbacks[key]; ok && fb == g && !(created[i.ID] && o.OK()) {
					continue // the holder was never populated: the application's fallback is still there
				}
				c := w.componentOf(g)
				if c == i.ID && r.SelfOnly {
					continue // C02
				}
				if len(r.Cands) == 0 || c != r.Cands[0] {
					vs = append(vs, v("C07", "by-name-wrong-component", key, fmt.Sprintf("%s requested name %q but holds %s (registered under that name: %v)", key, r.ReqName, g, w.ByName[r.ReqName])))
				}
			}
			if r.Empty() && !r.SelfOnly {
				// absent or incompatible
				if pt.Optional {
					before := []string{}
					if ps, ok := o.Presets[key]; ok {
						before = []string{ps}
					}
					if fmt.Sprint(got) != fmt.Sprint(before) {
						vs = append(vs, v("C07", "optional-by-name-touched", key, fmt.Sprintf("optional %s (name %q absent/incompatible) was written: it held %v before Run and holds %v now", key, r.ReqName, before, got)))
					}
				} else if out.DefReach[i.ID] {
					kind := "absent"
					if r.NameWrongType {
						kind = "wrong-type"
					}
					if o.Panic != "" {
						vs = append(vs, v("C07", "by-name-"+kind+"-panic", key, fmt.Sprintf("required %s requests name %q (%s): start-up panicked instead of returning an error: %s [%s]", key, r.ReqName, kind, o.Panic, o.PanicStk)))
					} else if !o.RunErr {
						vs = append(vs, v("C07", "by-name-"+kind+"-succeeded", key, fmt.Sprintf("required %s requests name %q (%s) but start-up succeeded", key, r.ReqName, kind)))
					}
				}
			}
			// a definition registered programmatically while the container refreshes exists for
			// every component created after that moment; for one created during Run it may or may
			// not have been there yet
			lateTarget := false
			if len(r.Cands) != 0 {
				if ti := w.Insts[r.Cands[0]]; ti != nil && ti.Contributed && ti.ContribBy != "" {
					lateTarget = true
				}
			}
			if o.OK() && created[i.ID] && !r.Empty() && len(got) == 0 && !lateTarget {
				vs = append(vs, v("C07", "by-name-empty", key, fmt.Sprintf("%s requested name %q (registered, assignable) but is empty after a successful start", key, r.ReqName)))
			}
			if pl, ok := o.PointsLate[i.ID]; ok && o.OK() && !created[i.ID] {
				// the holder was created by the lookup that followed Run
				got2 := pl[pt.Field]
				for _, g := range got2 {
					if ps, ok := o.Presets[key]; ok && ps == g {
						continue // the application's own object
					}
					if c := w.componentOf(g); !(c == i.ID && r.SelfOnly) && (len(r.Cands) == 0 || c != r.Cands[0]) {
						vs = append(vs, v("C07", "by-name-wrong-component", key, fmt.Sprintf("%s (created by a lookup after Run) requested name %q but holds %s (registered under that name: %v)", key, r.ReqName, g, w.ByName[r.ReqName])))
					}
				}
				if !r.Empty() && len(got2) == 0 {
					vs = append(vs, v("C07", "by-name-empty", key, fmt.Sprintf("%s requested name %q (registered, assignable) but is empty although its holder was created by a successful lookup after Run", key, r.ReqName)))
				}
			}
		}
	}
	// acyclic programs in which the named component is substituted by a wrapper of another
	// type: no early reference is ever handed out, so nothing can be stale and the start must
	// succeed with the wrapper injected wherever it (the published version) is assignable
	if w.P.Family == "wrapname" && out.Verdict == MustSucceed && !o.OK() {
		vs = append(vs, v("C07", "by-name-published-version-rejected", "", fmt.Sprintf("the named component is published as a wrapper that is assignable to the requesting field, the program is acyclic, yet start-up failed: err=%q panic=%q", o.ErrText, o.Panic)))
	}
	// an optional absent/incompatible by-name point must never make start-up fail or panic:
	// judged when it is the only possible reason
	if out.Verdict == MustSucceed && !o.OK() {
		for _, i := range w.P.Instances {
			for _, pt := range w.Types[i.Type].Points {
				if pt.Sel == sdl.SelName && pt.Optional && out.Res[i.ID][pt.Field].Empty() && out.PossReach[i.ID] {
					vs = append(vs, v("C07", "optional-by-name-failed-start", i.ID+"."+pt.Field, fmt.Sprintf("program is satisfiable and has optional by-name point %s.%s without target; start-up failed: err=%q panic=%q [%s]", i.ID, pt.Field, o.ErrText, o.Panic, o.PanicStk)))
				}
			}
		}
	}
	return vs
}

// CheckNarrowing is the C08 oracle: qualifier soundness on every run; unique Primary /
// unique unnamed on successful runs; per field.
func (w *World) CheckNarrowing(out *Outcome, o *Obs) []Violation {
	var vs []Violation
	if o.Points == nil {
		return nil
	}
	created := w.Created(o)
	for _, i := range w.P.Instances {
		for _, pt := range w.Types[i.Type].Points {
			got := o.Points[i.ID][pt.Field]
			key := i.ID + "." + pt.Field
			if len(pt.Quals) != 0 {
				for _, g := range got {
					c := w.componentOf(g)
					ci := w.Insts[c]
					if ci == nil {
						continue
					}
					if !w.Types[ci.Type].Qual || !contains(pt.Quals, ci.Qual) {
						q := "<none>"
						if w.Types[ci.Type].Qual {
							q = ci.Qual
						}
						vs = append(vs, v("C08", "qualifier-not-in-requested-set", key, fmt.Sprintf("%s requests qualifier %v but holds %s whose qualifier is %s", key, pt.Quals, g, q)))
					}
				}
			}
			if !pt.Single() || !o.OK() || !created[i.ID] {
				continue
			}
			r := out.Res[i.ID][pt.Field]
			if r.Exact != "" && !r.DontCare && len(r.Cands) > 1 && len(got) == 1 {
				if c := w.componentOf(got[0]); c != r.Exact && c != i.ID {
					vs = append(vs, v("C08", "ranking-violated", key, fmt.Sprintf("%s has candidates %v; unique Primary / unique unnamed rule selects %s, but the field holds %s", key, r.Cands, r.Exact, got[0])))
				}
			}
		}
	}
	return vs
}

// CheckSweep is the C10 oracle over all fault-free runs of one program.
func (w *World) CheckSweep(out *Outcome, runs []*Obs) []Violation {
	var vs []Violation
	if len(runs) == 0 {
		return nil
	}
	subst := false
	for _, pr := range w.P.Procs {
		if len(pr.Rules) != 0 {
			subst = true
		}
	}
	label := func(o *Obs) string { return fmt.Sprintf("%s/seed=%d", o.Sched, o.Seed) }
	outcome := func(o *Obs) string {
		switch {
		case o.Panic != "":
			return "panic"
		case o.RunErr:
			return "error"
		}
		return "ok"
	}
	// (1) agreement with the model
	for _, o := range runs {
		if subst {
			break // with substitution the statements allow failure (C03)
		}
		switch out.Verdict {
		case MustSucceed:
			if !o.OK() {
				vs = append(vs, v("C10", "outcome-disagrees-with-model", "must-succeed", fmt.Sprintf("run %s: model says must succeed, got %s (%s%s)", label(o), outcome(o), o.ErrText, o.Panic)))
			}
		case MustFail:
			if o.OK() {
				vs = append(vs, v("C10", "outcome-disagrees-with-model", "must-fail", fmt.Sprintf("run %s: model says must fail (%s), got ok", label(o), out.Why)))
			}
		case Rejected:
			// two distinct components under one name: refused whichever of them comes first
			if o.OK() && !w.contributedDuplicate() {
				vs = append(vs, v("C10", "outcome-disagrees-with-model", "must-reject", fmt.Sprintf("run %s: two distinct components claim one name (%s), got ok", label(o), out.Why)))
			}
		}
	}
	// (2) same success/failure for programs without tied points
	if !out.HasTied {
		first := outcome(runs[0]) == "ok"
		for _, o := range runs[1:] {
			if (outcome(o) == "ok") != first {
				oracle := "outcome-varies-with-order"
				if subst && w.staleVersionPattern(runs) && w.enumerationOrderCanDecide(out, runs) {
					oracle = "outcome-varies-under-substitution"
				} else if w.processorComponentTie() {
					oracle = "varies-with-the-order-of-unordered-processors"
				}
				vs = append(vs, v("C10", oracle, "", fmt.Sprintf("no point of the program is tied, yet run %s ended %s (%s%s) and run %s ended %s (%s%s)",
					label(runs[0]), outcome(runs[0]), runs[0].ErrText, runs[0].Panic, label(o), outcome(o), o.ErrText, o.Panic)))
				break
			}
		}
	}
	// what a component-factory hook finds registered does not depend on the order in which the
	// registry lists the components (compared across the runs that got that far)
	{
		var ref *Obs
		for _, o := range runs {
			if len(o.FactorySeen) == 0 {
				continue
			}
			if ref == nil {
				ref = o
				continue
			}
			for _, id := range sdl.SortedKeys(o.FactorySeen) {
				a, okA := ref.FactorySeen[id]
				b := o.FactorySeen[id]
				if okA && a != b && a != [2]int{} && b != [2]int{} {
					vs = append(vs, v("C10", "factory-hook-sees-a-different-registry", id, fmt.Sprintf("the component-factory hook of %s found %d registered components / %d definition scanners in run %s and %d / %d in run %s", id, a[0], a[1], label(ref), b[0], b[1], label(o))))
				}
			}
		}
	}
	// (3) non-tied points hold the same component in all successful runs
	var ref *Obs
	for _, o := range runs {
		if !o.OK() {
			continue
		}
		if ref == nil {
			ref = o
			continue
		}
		cr, co := w.Created(ref), w.Created(o)
		for _, i := range w.P.Instances {
			if !cr[i.ID] || !co[i.ID] {
				continue
			}
			for _, pt := range w.Types[i.Type].Points {
				r := out.Res[i.ID][pt.Field]
				// compare components, not versions: which version is published is C01/C03's business
				comp := func(xs []string) []string {
					var out []string
					for _, x := range xs {
						if c := w.componentOf(x); c != "" {
							if ti := w.Insts[c]; ti != nil && ti.Contributed && ti.ContribBy != "" {
								continue // registered programmatically while the container refreshes: there or not yet
							}
							out = append(out, c)
						} else {
							out = append(out, x)
						}
					}
					return sortedCopy(out)
				}
				a := comp(ref.Points[i.ID][pt.Field])
				b := comp(o.Points[i.ID][pt.Field])
				if r.Tied {
					continue
				}
				if strings.Join(a, ",") != strings.Join(b, ",") {
					oracle := "wiring-varies-with-order"
					if w.processorComponentTie() {
						oracle = "varies-with-the-order-of-unordered-processors"
					}
					vs = append(vs, v("C10", oracle, i.ID+"."+pt.Field, fmt.Sprintf("point %s.%s is not tied (candidates %v) but holds %v in run %s and %v in run %s", i.ID, pt.Field, r.Cands, a, label(ref), b, label(o))))
				}
			}
		}
	}
	return vs
}

// staleVersionPattern recognises the D9 history: every failing run of the sweep failed in
// the creation of a component N that (a) had been substituted by a post-processor around
// initialization in that run and (b) had an early reference outstanding (its early factory
// had been invoked) - i.e. the stale-version protection demanded by C03 fired, and whether
// it has to fire depends on which member of a cycle is created first.
func (w *World) staleVersionPattern(runs []*Obs) bool {
	failing := 0
	for _, o := range runs {
		if o.OK() {
			continue
		}
		if o.Panic != "" {
			return false
		}
		failing++
		// first failing creation
		first := ""
		for _, c := range o.Reg {
			if c.Op == "goc-exit" && c.Err {
				first = c.Name
				break
			}
		}
		if first == "" {
			return false
		}
		early, sub := false, false
		for _, c := range o.Reg {
			if c.Op == "ef" && c.Name == first {
				early = true
			}
		}
		for _, e := range o.Events {
			if e.Kind == "subst" && e.Subj == first && !strings.HasPrefix(e.Detail, "early@") {
				sub = true
			}
		}
		if !early || !sub {
			return false
		}
	}
	return failing > 0
}

// staleFailures returns the components whose creation was the first to fail in the failing
// runs of the sweep.
func (w *World) staleFailures(runs []*Obs) []string {
	seen := map[string]bool{}
	for _, o := range runs {
		if o.OK() {
			continue
		}
		for _, c := range o.Reg {
			if c.Op == "goc-exit" && c.Err {
				if id := w.instByName(c.Name); id != "" {
					seen[id] = true
				}
				break
			}
		}
	}
	return sdl.SortedKeys(seen)
}

// needs returns everything the creation of the component can lead to: candidates of its
// points (all of them, whatever the ranking), by-name targets (also of an unfitting type:
// they are created before they are rejected), lookups from its initialization callbacks and
// lookups a post-processor performs while handling it - transitively.
// Needs is needs for the generator.
func (w *World) Needs(out *Outcome, from string) map[string]bool { return w.needs(out, from) }

func (w *World) needs(out *Outcome, from string) map[string]bool {
	seen := map[string]bool{from: true}
	q := []string{from}
	for len(q) != 0 {
		id := q[0]
		q = q[1:]
		var next []string
		if i := w.Insts[id]; i != nil {
			next = append(next, i.InitLookups...)
			for _, f := range sdl.SortedKeys(out.Res[id]) {
				r := out.Res[id][f]
				next = append(next, r.Cands...)
				if r.Point.Sel == sdl.SelName {
					next = append(next, w.ByName[r.ReqName]...)
				}
			}
		}
		for _, pr := range w.P.Procs {
			for _, ru := range pr.Rules {
				if ru.Action == "lookup" && ru.Target == id {
					next = append(next, ru.Sub)
				}
			}
		}
		for _, n := range next {
			if w.Insts[n] != nil && !seen[n] {
				seen[n] = true
				q = append(q, n)
			}
		}
	}
	return seen
}

// enumerationOrderCanDecide is the precondition of the D9 finding, judged for the components
// whose creation failed: the order in which the registries enumerate can decide where the
// cycle of such a component is entered only through a holder that creates several things in
// an enumeration-dependent order - a point with two or more candidates, a component with both
// wire and func points (the two scanners file their properties in the order in which the
// registry enumerated them), the App component with its runners and closers, the components
// that are themselves post-processors (created in registration order) - and only if that
// holder's needs include the failed component. Otherwise the name-sorted refresh fixes the
// creation order and the outcome must not vary at all.
func (w *World) enumerationOrderCanDecide(out *Outcome, runs []*Obs) bool {
	failed := w.staleFailures(runs)
	if len(failed) == 0 {
		return false
	}
	// groups of components created by one holder in an enumeration-dependent order
	var groups [][]string
	for _, i := range w.P.Instances {
		t := w.Types[i.Type]
		wire, fn := false, false
		for _, pt := range t.Points {
			if pt.Sel == sdl.SelFunc {
				fn = true
			} else {
				wire = true
			}
			if r := out.Res[i.ID][pt.Field]; r != nil && len(r.Cands) >= 2 {
				groups = append(groups, r.Cands)
			}
		}
		if wire && fn {
			groups = append(groups, []string{i.ID})
		}
	}
	var roles, procs []string
	for _, i := range w.P.Instances {
		t := w.Types[i.Type]
		if t.Role != "" {
			roles = append(roles, i.ID)
		}
		if t.Proc {
			procs = append(procs, i.ID)
		}
	}
	if len(roles) >= 2 {
		groups = append(groups, roles)
	}
	if len(procs) >= 2 {
		groups = append(groups, procs)
	}
	for _, f := range failed {
		ok := false
		for _, g := range groups {
			for _, c := range g {
				if w.needs(out, c)[f] {
					ok = true
				}
			}
		}
		if !ok {
			return false
		}
	}
	return true
}

// hasMultiCandidatePoint: some point of the program has two or more candidates, i.e. the
// order in which the registry enumerates candidates can decide which member of a cycle is
// created first (the precondition of the D9 finding). Without such a point the creation
// order is fixed by the name-sorted refresh and the outcome must not vary at all.
func hasMultiCandidatePoint(out *Outcome) bool {
	for _, rs := range out.Res {
		for _, r := range rs {
			if len(r.Cands) >= 2 {
				return true
			}
		}
	}
	return false
}

// replacedBeforeInstantiation: a post-processor supplies another object instead of
// instantiating / populating the registered one; the registered object's fields are then
// never touched by the container.
// substitutedAroundInit: some processor substitutes the component in a before/after
// initialization callback.
func (w *World) substitutedAroundInit(id string) bool {
	for _, pr := range w.P.Procs {
		for _, r := range pr.Rules {
			if r.Target == id && (r.At == sdl.CbBefore || r.At == sdl.CbAfter) {
				return true
			}
		}
	}
	return false
}

func (w *World) replacedBeforeInstantiation(id string) bool {
	for _, pr := range w.P.Procs {
		for _, r := range pr.Rules {
			if r.Target == id && r.At == sdl.CbBeforeInst {
				return true
			}
		}
	}
	return false
}

// hasWireAndFuncHolder: some component has both a wire-tagged and a func-tagged point. The
// two tag scanners file their properties in the order in which the registry enumerated the
// scanners, so which of the holder's dependencies is created first - and thereby where a
// cycle is entered - depends on the enumeration order (the second precondition of D9).
func (w *World) hasWireAndFuncHolder() bool {
	for _, t := range w.P.Types {
		wire, fn := false, false
		for _, pt := range t.Points {
			if pt.Sel == sdl.SelFunc {
				fn = true
			} else {
				wire = true
			}
		}
		if wire && fn {
			return true
		}
	}
	return false
}

// contributedDuplicate: one of the claimants of a duplicated name is contributed through the
// definition registry (not registered with the container: nothing refuses it at registration).
func (w *World) contributedDuplicate() bool {
	for _, n := range w.Duplicates() {
		for _, id := range w.ByName[n] {
			if i := w.Insts[id]; i != nil && i.Contributed {
				return true
			}
		}
	}
	return false
}

// processorComponentTie is the precondition of the D13 finding: the program has a component
// that is itself a post-processor, and a processor that substitutes or short-circuits which the
// ordering contract does not place relative to it (both unordered, or one class and one Order).
// The container creates processor components - and everything they depend on - while it puts
// the processor list together, one after the other: what is created then is processed only
// by the processors already in the list, and among participants the contract does not order
// that is the order in which they were registered.
func (w *World) processorComponentTie() bool {
	rank := map[string]int{"priority": 0, "ordered": 1, "": 2, "marker": 2}
	for _, pr := range w.P.Procs {
		acts := false
		for _, ru := range pr.Rules {
			acts = acts || ru.Action == "substitute" || ru.Action == "self"
		}
		if !acts {
			continue
		}
		for _, i := range w.P.Instances {
			t := w.Types[i.Type]
			if t == nil || !t.Proc {
				continue
			}
			if rank[pr.OrderClass] == rank[t.OrderClass] && (rank[pr.OrderClass] == 2 || pr.Order == i.Order) {
				return true
			}
		}
	}
	return false
}
