package model

// Obs is everything observed of one simulated run, as plain data.
type Obs struct {
	ProgID string `json:"prog"`
	// how the run was produced
	Seed   uint64   `json:"seed"`
	Picks  []int    `json:"picks,omitempty"`
	Faults []string `json:"faults,omitempty"`
	Sched  string   `json:"sched,omitempty"` // label of the schedule (canonical, reversed, random#k)

	// outcome of App.Run
	RunErr    bool   `json:"runErr"`
	ErrText   string `json:"errText,omitempty"`
	Panic     string `json:"panic,omitempty"`
	PanicStk  string `json:"panicStk,omitempty"`
	Stuck     bool   `json:"stuck,omitempty"`
	OverSteps bool   `json:"overSteps,omitempty"`
	Steps     int    `json:"steps"`
	// RegPanic: registration (SetComponents) panicked, i.e. duplicate name rejected.
	RegPanic bool `json:"regPanic,omitempty"`
	// RegOrder: program instances in the order in which they were handed to the container.
	// RegOwner (after a rejected registration only): name -> the object the singleton registry
	// holds under that name once the application has recovered the rejection.
	// LeftoverViews (set by the identity oracle): views held by holders that were completed
	// inside a creation attempt which then failed (not judged, counted as an observation).
	LeftoverViews int `json:"-"`
	// Presets: "holder.field" -> id of the object the application put into that optional,
	// unsatisfiable point before Run.
	Presets map[string]string `json:"presets,omitempty"`
	// PointsLate: wiring of the components that were not created during Run, read after the
	// by-name lookups that followed it (a lazy component nothing needed is created by its lookup).
	PointsLate map[string]map[string][]string `json:"pointsLate,omitempty"`
	// Lookup2 / CfgLate2: second round of lookups of the lazy components, after the
	// application changed the configuration (Program.PostSetKey).
	Lookup2  map[string]LookupObs         `json:"lookup2,omitempty"`
	CfgLate2 map[string]map[string]string `json:"cfgLate2,omitempty"`
	// CfgLate: configuration fields of lazy components, read after the by-name lookups.
	CfgLate  map[string]map[string]string `json:"cfgLate,omitempty"`
	RegOrder []string                     `json:"regOrder,omitempty"`
	RegOwner map[string]string            `json:"regOwner,omitempty"`

	// wiring after Run: holder -> field -> target ids. "?": object unknown to the harness.
	Points map[string]map[string][]string `json:"points,omitempty"`
	// InitLookups: holder -> target id -> what App.GetComponentByName returned when the holder
	// looked the target up from inside its own initialization callback. Such a lookup is not
	// an injection point (the container cannot know who keeps the result); it is recorded
	// because it closes dependency cycles during initialization.
	InitLookups map[string]map[string][]string `json:"initLookups,omitempty"`
	// AtBefore: wiring snapshot taken at the first before-initialization callback of a component.
	AtBefore map[string]map[string][]string `json:"atBefore,omitempty"`
	// CfgAtBefore / Cfg: configuration field values (formatted) at that moment / after Run.
	CfgAtBefore map[string]map[string]string `json:"cfgAtBefore,omitempty"`
	Cfg         map[string]map[string]string `json:"cfg,omitempty"`
	// Lookup: instance id -> what App.GetComponentByName returned after Run.
	Lookup map[string]LookupObs `json:"lookup,omitempty"`
	// LoggerSet: instance id -> its logger-tagged field was set by the container.
	// SleptS: seconds of simulated time the scheduler let pass while tasks were parked (Close phase).
	// Fallbacks: point key -> id of the application's own fallback object that sat in a satisfiable
	// single-valued point before Run (the container replaces it when it populates the holder).
	Fallbacks map[string]string `json:"fallbacks,omitempty"`
	// FactorySeen: per user processor, how many registered components / definition scanners its
	// component-factory hook found (all of them are registered by then, whatever the order).
	FactorySeen map[string][2]int `json:"factorySeen,omitempty"`
	// KindCalls: per instance, how often the container invoked its SimKind() method
	KindCalls map[string]int  `json:"kindCalls,omitempty"`
	SleptS    int             `json:"sleptS,omitempty"`
	LoggerSet map[string]bool `json:"loggerSet,omitempty"`
	// LoggerPref: per instance with two logger fields, the prefix of the logger in `Log` (tag
	// value empty) and in `Log2` (explicit prefix).
	LoggerPref map[string][2]string `json:"loggerPref,omitempty"`
	// ByIface: interface name -> objects returned by GetComponents(InterfaceType(...)) after
	// Run; ByIfaceErr: the query failed (it creates lazy components, which may fail).
	ByIface    map[string][]string `json:"byIface,omitempty"`
	ByIfaceErr map[string]bool     `json:"byIfaceErr,omitempty"`
	// Frame: descriptions of frame fields that changed.
	Frame []string `json:"frame,omitempty"`
	// Get: effective configuration leaves as seen through App.Get.
	Get map[string]string `json:"get,omitempty"`
	// Get2 / ReloadErr: the same after late sources were added and the configuration was
	// initialised a second time.
	Get2      map[string]string `json:"get2,omitempty"`
	ReloadErr string            `json:"reloadErr,omitempty"`

	Events []Ev      `json:"events,omitempty"`
	Reg    []RegCall `json:"reg,omitempty"`
	Sites  []string  `json:"sites,omitempty"`
	Fired  []string  `json:"fired,omitempty"`
	// EndOfRun: event sequence number at which App.Run returned (later events stem from
	// the harness's own lookups / continuation / Close).
	EndOfRun int `json:"endOfRun"`

	// Continuation after a failed run.
	Cont []ContObs `json:"cont,omitempty"`

	// CloseSnaps: one snapshot per quiescent point while App.Close was running.
	CloseSnaps []CloseSnap `json:"closeSnaps,omitempty"`
	// CloseReturned: App.Close returned before the run ended.
	CloseReturned bool `json:"closeReturned,omitempty"`

	// TagRecords: scanner id -> received records.
	TagRecords map[string][]TagRec `json:"tagRecords,omitempty"`

	// reach
	MaxParked    int    `json:"maxParked,omitempty"`
	Contended    int    `json:"contended,omitempty"`
	NonCanonical int    `json:"nonCanonical,omitempty"`
	PropsNonCan  int    `json:"propsNonCan,omitempty"`
	OrdModes     [3]int `json:"ordModes"`
	DupSite      string `json:"dupSite,omitempty"`
	PathSig      uint64 `json:"pathSig,omitempty"`
}

type Ev struct {
	Seq    int    `json:"q"`
	Kind   string `json:"k"`
	Subj   string `json:"s"`
	Detail string `json:"d,omitempty"`
}

type RegCall struct {
	Seq   int    `json:"q"`
	Op    string `json:"op"`
	Name  string `json:"n"`
	Ref   int    `json:"r,omitempty"`
	Raw   int    `json:"raw,omitempty"`
	Proxy bool   `json:"px,omitempty"` // the reference is a wrapped version (a definition that stands for another)
	Err   bool   `json:"e,omitempty"`
	Bool  bool   `json:"b,omitempty"`
	Depth int    `json:"d,omitempty"`
}

type LookupObs struct {
	Target string `json:"t,omitempty"`
	Err    bool   `json:"e,omitempty"`
	Panic  string `json:"p,omitempty"`
}

// ContObs: one lookup on the same App after a failed Run.
type ContObs struct {
	Inst   string `json:"inst"`
	Round  int    `json:"round"`
	Target string `json:"t,omitempty"`
	Err    bool   `json:"e,omitempty"`
	Panic  string `json:"p,omitempty"`
	// SeqFrom/SeqTo: event sequence numbers around the lookup.
	SeqFrom int `json:"from"`
	SeqTo   int `json:"to"`
	// Points: wiring of the instance right after the lookup.
	Points map[string][]string `json:"points,omitempty"`
	// InCreation: the registry still reports the name as in creation after the lookup.
	InCreation bool `json:"inCreation,omitempty"`
}

type TagRec struct {
	Comp   string     `json:"comp"`
	Field  string     `json:"field"`
	Holder string     `json:"holder"`
	Val    string     `json:"val"`
	Args   [][]string `json:"args,omitempty"`
}

// Violation is one oracle verdict.
type Violation struct {
	Property string `json:"property"`
	Oracle   string `json:"oracle"`
	// Key: stable facts identifying the failing input/call site/history (used to match known findings).
	Key    string `json:"key"`
	Detail string `json:"detail"`
	// Runs: indices (into the judged run list) of the runs that exhibit the violation.
	Runs []int `json:"runs,omitempty"`
}

// CloseSnap is what the scheduler saw at one quiescent point during App.Close.
type CloseSnap struct {
	Parked   []string       `json:"parked"`   // closers parked inside their Close()
	Starting []string       `json:"starting"` // closer goroutines started by App.Close, parked before they invoke the closer
	Entered  map[string]int `json:"entered"`  // closer id -> number of times its Close() was entered so far
	Exited   map[string]int `json:"exited"`
	Returned bool           `json:"returned"` // App.Close has returned
}
