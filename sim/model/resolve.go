// Package model holds the executable reference models (oracles). They are written from the
// property statements and operate on the SDL only; nothing here imports go-kid/ioc.
package model

import (
	"fmt"
	"sort"
	"strings"

	"verifsim/sdl"
)

// Resolution is what the property statements demand of one injection point.
type Resolution struct {
	Holder string
	Point  *sdl.Point
	// Cands: admissible components (after selector, assignability, qualifier, holder removed), sorted.
	Cands []string
	// Exact: for a single-valued point, the uniquely determined target ("" if tied).
	Exact string
	// Tied: for a single-valued point without unique winner, the set within which the
	// choice may vary (== Cands).
	Tied bool
	// DontCare: the statements leave the outcome open (the holder itself is the unique
	// winner among several candidates, or several Primary components compete); the value is
	// not judged, only its stability across schedules (C10).
	DontCare bool
	// SelfOnly: the only candidate(s) were the holder itself.
	SelfOnly bool
	// ReqName: by-name point: the requested name after placeholder substitution.
	ReqName string
	// NameAbsent / NameWrongType: by-name diagnosis.
	NameAbsent    bool
	NameWrongType bool
	// Foreign: the point is typed any / []any and selects by type without a qualifier: every
	// registered component is a candidate, the container's own components (which the model does
	// not enumerate) included. Cands lists the program's components only.
	Foreign bool
}

func (r *Resolution) Empty() bool { return len(r.Cands) == 0 && !r.Foreign }

// World is a program plus derived lookup tables.
type World struct {
	P      *sdl.Program
	Types  map[string]*sdl.Type
	Insts  map[string]*sdl.Instance
	ByName map[string][]string // registered name -> instance ids (len > 1 = duplicate)
	Cfg    map[string]string   // flattened effective configuration (for ${key} in names)
}

func NewWorld(p *sdl.Program, cfg map[string]string) *World {
	w := &World{P: p, Types: map[string]*sdl.Type{}, Insts: map[string]*sdl.Instance{}, ByName: map[string][]string{}, Cfg: cfg}
	for _, t := range p.Types {
		w.Types[t.Name] = t
	}
	// decorator types: everything the decorated type is, except that type itself
	for _, pr := range p.Procs {
		for _, ru := range pr.Rules {
			if base := w.Types[sdl.DecoBase(ru.SubType)]; sdl.IsDeco(ru.SubType) && base != nil {
				d := *base
				d.Name = ru.SubType
				w.Types[ru.SubType] = &d
			}
		}
	}
	for _, i := range p.Instances {
		w.Insts[i.ID] = i
		n := p.NameOf(i)
		w.ByName[n] = append(w.ByName[n], i.ID)
	}
	return w
}

// Duplicates returns the names registered by more than one instance.
func (w *World) Duplicates() []string {
	var out []string
	for _, n := range sdl.SortedKeys(w.ByName) {
		if len(w.ByName[n]) > 1 {
			out = append(out, n)
		}
	}
	return out
}

// pubType is the type of the version of the instance that the container publishes when a
// post-processor substitutes it around initialization by an object of another type.
func (w *World) pubType(id string) string {
	for _, pr := range w.P.Procs {
		for _, r := range pr.Rules {
			if r.Target == id && r.SubType != "" && r.At != sdl.CbEarly {
				return r.SubType
			}
		}
	}
	return w.Insts[id].Type
}

func hasIface(t *sdl.Type, k int) bool {
	for _, x := range t.Ifaces {
		if x == k {
			return true
		}
	}
	return false
}

func contains(xs []string, x string) bool {
	for _, y := range xs {
		if y == x {
			return true
		}
	}
	return false
}

// assignable: can an instance of type t be stored in a field of this point's (element) type?
func assignable(t *sdl.Type, pt *sdl.Point) bool {
	switch pt.Kind {
	case sdl.KPtr, sdl.KPtrs:
		return t.Name == pt.Target
	case sdl.KIface, sdl.KIfaces:
		return hasIface(t, pt.Iface)
	case sdl.KAny, sdl.KAnys:
		return true
	}
	return false
}

// SubstPlaceholders resolves ${key} / ${key:default} in a tag value against the flattened
// configuration (only the simple, non-nested form the generator emits).
func SubstPlaceholders(s string, cfg map[string]string) string {
	for {
		i := strings.Index(s, "${")
		if i < 0 {
			return s
		}
		j := strings.Index(s[i:], "}")
		if j < 0 {
			return s
		}
		inner := s[i+2 : i+j]
		key, def, _ := strings.Cut(inner, ":")
		v, ok := cfg[key]
		if !ok {
			v = def
		}
		s = s[:i] + v + s[i+j+1:]
	}
}

// Resolve computes what the statements demand of point pt of holder h.
func (w *World) Resolve(h *sdl.Instance, pt *sdl.Point) *Resolution {
	r := &Resolution{Holder: h.ID, Point: pt}
	var cands []string
	switch pt.Sel {
	case sdl.SelType:
		for _, i := range w.P.Instances {
			// candidates are found by their declared type; what is injected is the published
			// version, which a post-processor may have replaced by an object of another type
			// (only in acyclic programs, see genWrapName)
			if assignable(w.Types[i.Type], pt) && assignable(w.Types[w.pubType(i.ID)], pt) {
				cands = append(cands, i.ID)
			}
		}
	case sdl.SelName:
		r.ReqName = SubstPlaceholders(pt.Name, w.Cfg)
		ids := w.ByName[r.ReqName]
		if len(ids) == 0 {
			r.NameAbsent = true
		}
		for _, id := range ids {
			// what is injected is the published version: a wrapper of another type decides
			if assignable(w.Types[w.pubType(id)], pt) {
				cands = append(cands, id)
			} else {
				r.NameWrongType = true
			}
		}
	case sdl.SelFunc:
		for _, i := range w.P.Instances {
			t := w.Types[i.Type]
			if !assignable(t, pt) {
				continue
			}
			if len(pt.Returns) == 0 {
				if contains(t.Funcs, pt.Name) {
					cands = append(cands, i.ID)
				}
			} else if pt.Name == "SimKind" && t.HasKind && (contains(pt.Returns, i.Kind) || contains(pt.Returns, "*")) {
				cands = append(cands, i.ID)
			}
		}
	}
	if len(pt.Quals) != 0 {
		var f []string
		for _, id := range cands {
			i := w.Insts[id]
			if w.Types[i.Type].Qual && contains(pt.Quals, i.Qual) {
				f = append(f, id)
			}
		}
		cands = f
	}
	if pt.Sel == sdl.SelType && (pt.Kind == sdl.KAny || pt.Kind == sdl.KAnys) && len(pt.Quals) == 0 {
		r.Foreign = true
	}
	if pt.Kind == sdl.KApp {
		// the application component itself: always there, never one of the program's components
		r.Foreign, r.Cands, r.Tied = true, nil, true
		return r
	}
	withSelf := cands
	var others []string
	for _, id := range cands {
		if id != h.ID {
			others = append(others, id)
		}
	}
	if len(withSelf) != 0 && len(others) == 0 && !r.Foreign {
		r.SelfOnly = true
	}
	sort.Strings(others)
	r.Cands = others
	if r.Foreign && pt.Single() {
		// the container's own components carry no Primary marker and no custom name: a unique
		// Primary among the program's components wins, anything else is a tie that includes them
		if exact, open := w.rank(others); exact != "" && w.Types[w.Insts[exact].Type].Primary {
			r.Exact = exact
		} else {
			r.Tied, r.DontCare = true, open
		}
		if e, _ := w.rank(withSelf); e == h.ID && w.Types[h.Type].Primary {
			r.DontCare = true
		}
		return r
	}
	if !pt.Single() || len(others) == 0 {
		return r
	}
	if len(others) == 1 {
		r.Exact = others[0]
	} else {
		exact, open := w.rank(others)
		r.Exact = exact
		if exact == "" {
			r.Tied = true
			r.DontCare = open
		}
	}
	// the holder is a candidate next to others: if it would be the unique winner of the
	// ranking, the statements leave the outcome open
	if len(withSelf) != len(others) {
		if e, _ := w.rank(withSelf); e == h.ID {
			r.DontCare = true
		}
	}
	return r
}

// rank applies "a unique Primary wins, otherwise a unique component without a custom name".
// open reports that several Primary components compete (not covered by the statements).
func (w *World) rank(ids []string) (exact string, open bool) {
	var prim, unnamed []string
	for _, id := range ids {
		i := w.Insts[id]
		if w.Types[i.Type].Primary {
			prim = append(prim, id)
		}
		if i.Alias == "" {
			unnamed = append(unnamed, id)
		}
	}
	if len(prim) == 1 {
		return prim[0], false
	}
	if len(prim) > 1 {
		return "", true
	}
	if len(unnamed) == 1 {
		return unnamed[0], false
	}
	return "", false
}

// Verdicts of the start-outcome model.
const (
	MustSucceed = "must-succeed"
	MustFail    = "must-fail"
	Rejected    = "must-reject" // duplicate names: registration panics or Run fails
	NoVerdict   = "no-verdict"
)

type Outcome struct {
	Verdict string
	Why     string
	// Res[holder][field] for all points of all instances.
	Res map[string]map[string]*Resolution
	// DefReach / PossReach: instances created for sure / possibly created during Run.
	DefReach  map[string]bool
	PossReach map[string]bool
	HasTied   bool
}

// StartOutcome is the start-outcome model for a fault-free, substitution-free start with a
// fully satisfiable configuration (configuration demands are judged separately).
func (w *World) StartOutcome() *Outcome {
	o := &Outcome{Res: map[string]map[string]*Resolution{}, DefReach: map[string]bool{}, PossReach: map[string]bool{}}
	for _, i := range w.P.Instances {
		o.Res[i.ID] = map[string]*Resolution{}
		for _, pt := range w.Types[i.Type].Points {
			r := w.Resolve(i, pt)
			o.Res[i.ID][pt.Field] = r
			if r.Tied {
				o.HasTied = true
			}
		}
	}
	if d := w.Duplicates(); len(d) != 0 {
		o.Verdict, o.Why = Rejected, "duplicate name "+d[0]
		return o
	}
	// reachability
	var defQ, possQ []string
	for _, i := range w.P.Instances {
		t := w.Types[i.Type]
		if !t.Lazy || t.Role != "" {
			o.DefReach[i.ID], o.PossReach[i.ID] = true, true
			defQ = append(defQ, i.ID)
			possQ = append(possQ, i.ID)
		}
	}
	for len(defQ) != 0 {
		id := defQ[0]
		defQ = defQ[1:]
		for _, n := range w.Insts[id].InitLookups {
			if w.Insts[n] != nil && !o.DefReach[n] {
				o.DefReach[n] = true
				defQ = append(defQ, n)
			}
		}
		for _, f := range sdl.SortedKeys(o.Res[id]) {
			r := o.Res[id][f]
			var next []string
			if !r.Point.Single() {
				next = r.Cands
			} else if r.Exact != "" && !r.DontCare {
				next = []string{r.Exact}
			}
			for _, n := range next {
				if !o.DefReach[n] {
					o.DefReach[n] = true
					defQ = append(defQ, n)
				}
			}
		}
	}
	for len(possQ) != 0 {
		id := possQ[0]
		possQ = possQ[1:]
		for _, n := range w.Insts[id].InitLookups {
			if w.Insts[n] != nil && !o.PossReach[n] {
				o.PossReach[n] = true
				possQ = append(possQ, n)
			}
		}
		for _, f := range sdl.SortedKeys(o.Res[id]) {
			r := o.Res[id][f]
			next := append([]string(nil), r.Cands...)
			// a by-name target of the wrong type may still be created before it is rejected
			if r.Point.Sel == sdl.SelName {
				next = append(next, w.ByName[r.ReqName]...)
			}
			for _, n := range next {
				if !o.PossReach[n] {
					o.PossReach[n] = true
					possQ = append(possQ, n)
				}
			}
		}
	}
	mustFail, open := "", ""
	for _, i := range w.P.Instances {
		for _, pt := range w.Types[i.Type].Points {
			r := o.Res[i.ID][pt.Field]
			if pt.Optional {
				continue
			}
			if r.Empty() {
				if o.DefReach[i.ID] && mustFail == "" {
					mustFail = fmt.Sprintf("%s.%s has no admissible candidate", i.ID, pt.Field)
				}
				if o.PossReach[i.ID] && open == "" {
					open = fmt.Sprintf("%s.%s has no admissible candidate (holder possibly created)", i.ID, pt.Field)
				}
			} else if r.DontCare && o.PossReach[i.ID] && open == "" {
				open = fmt.Sprintf("%s.%s outcome left open by the statements", i.ID, pt.Field)
			}
		}
	}
	if len(w.P.Scanners) != 0 && mustFail == "" {
		for _, id := range w.P.Refuse {
			if w.Insts[id] != nil {
				mustFail = fmt.Sprintf("scanner %s refuses the definition of %s", w.P.Scanners[0].ID, id)
				break
			}
		}
	}
	switch {
	case mustFail != "":
		o.Verdict, o.Why = MustFail, mustFail
	case open != "":
		o.Verdict, o.Why = NoVerdict, open
	default:
		o.Verdict = MustSucceed
	}
	return o
}
