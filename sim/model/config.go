package model

import (
	"fmt"
	"sort"

	"verifsim/sdl"
)

// ActiveSources applies the option semantics of the statements: options that *set* the
// loader list replace it, options that *add* a source append to it.
func ActiveSources(p *sdl.Program) []*sdl.Source { return activeSources(p, false) }

// ActiveSourcesAfterReload includes the late sources (appended in their order).
func ActiveSourcesAfterReload(p *sdl.Program) []*sdl.Source { return activeSources(p, true) }

func activeSources(p *sdl.Program, late bool) []*sdl.Source {
	var list []*sdl.Source
	for _, s := range p.Sources {
		if s.Late {
			continue
		}
		switch s.Via {
		case "SetConfigLoader":
			// one option call replaces the list with all members of the group
			if n := len(list); s.Group != 0 && n != 0 && list[n-1].Group == s.Group && list[n-1].Via == s.Via && sameGroupRun(p, list[n-1], s) {
				list = append(list, s)
			} else {
				list = []*sdl.Source{s}
			}
		default: // AddConfigLoader, SetConfig, AddLoaders
			list = append(list, s)
		}
	}
	if late {
		for _, s := range p.Sources {
			if s.Late {
				list = append(list, s)
			}
		}
	}
	return list
}

func orderClassOf(s *sdl.Source) (class string, order int) {
	switch s.Kind {
	case "file":
		return "priority", 0
	case "sim":
		return s.OrderClass, s.Order
	}
	return "", 0
}

// LoaderSequence is the contract order of the active sources: priority-ordered ones by
// Order, then ordered ones by Order, then the rest in the order they were added. The
// relative order of equal Order values is left open by the contract; the sequence returned
// keeps add order among them, and Ambiguous reports whether any two such sources exist.
func LoaderSequence(p *sdl.Program) (seq []*sdl.Source, ambiguous [][2]string) {
	return loaderSequence(ActiveSources(p))
}

func loaderSequence(act []*sdl.Source) (seq []*sdl.Source, ambiguous [][2]string) {
	var pr, or, un []*sdl.Source
	for _, s := range act {
		c, _ := orderClassOf(s)
		if c == "marker" {
			c = ""
		}
		switch c {
		case "priority":
			pr = append(pr, s)
		case "ordered":
			or = append(or, s)
		default:
			un = append(un, s)
		}
	}
	for _, grp := range [][]*sdl.Source{pr, or} {
		sort.SliceStable(grp, func(i, j int) bool {
			_, a := orderClassOf(grp[i])
			_, b := orderClassOf(grp[j])
			return a < b
		})
		for i := 1; i < len(grp); i++ {
			_, a := orderClassOf(grp[i-1])
			_, b := orderClassOf(grp[i])
			if a == b {
				ambiguous = append(ambiguous, [2]string{grp[i-1].ID, grp[i].ID})
			}
		}
	}
	seq = append(seq, pr...)
	seq = append(seq, or...)
	seq = append(seq, un...)
	return
}

func deepMerge(dst, src map[string]any) {
	for k, v := range src {
		if sm, ok := v.(map[string]any); ok {
			if dm, ok := dst[k].(map[string]any); ok {
				deepMerge(dm, sm)
				continue
			}
			nm := map[string]any{}
			deepMerge(nm, sm)
			dst[k] = nm
			continue
		}
		dst[k] = v
	}
}

func flattenInto(prefix string, doc map[string]any, out map[string]string) {
	for _, k := range sdl.SortedKeys(doc) {
		p := k
		if prefix != "" {
			p = prefix + "." + k
		}
		if m, ok := doc[k].(map[string]any); ok {
			flattenInto(p, m, out)
		} else {
			out[p] = fmtScalar(doc[k])
		}
	}
}

func fmtScalar(v any) string {
	switch x := v.(type) {
	case float64:
		if x == float64(int64(x)) {
			return fmt.Sprint(int64(x))
		}
	}
	return fmt.Sprint(v)
}

// FlattenDoc turns a nested document into path -> formatted scalar.
func FlattenDoc(doc map[string]any) map[string]string {
	out := map[string]string{}
	flattenInto("", doc, out)
	return out
}

// MergeSources is the reference merge: deep merge of the active sources' documents in
// contract order, last wins on leaves. Sources with a fault contribute nothing.
func MergeSources(p *sdl.Program) map[string]string {
	seq, _ := LoaderSequence(p)
	merged := map[string]any{}
	for _, s := range seq {
		if s.Fault != "" {
			continue
		}
		deepMerge(merged, s.Doc)
	}
	return FlattenDoc(merged)
}

// sameGroupRun: a and b are consecutive (non-late) members of one option group.
func sameGroupRun(p *sdl.Program, a, b *sdl.Source) bool {
	var early []*sdl.Source
	for _, s := range p.Sources {
		if !s.Late {
			early = append(early, s)
		}
	}
	for i := 1; i < len(early); i++ {
		if early[i-1] == a && early[i] == b {
			return true
		}
	}
	return false
}
