package model

import (
	"verifsim/sdl"
)

// Judge applies the oracles of one property to the recorded runs of one program. It is a
// pure function of (program, observations) and is used identically by checks, replays and
// the minimiser.
func Judge(prop string, p *sdl.Program, cfg map[string]string, runs []*Obs) []Violation {
	w := NewWorld(p, cfg)
	out := w.StartOutcome()
	var vs []Violation
	perRun := func(f func(o *Obs) []Violation) {
		for i, o := range runs {
			for _, x := range f(o) {
				x.Runs = []int{i}
				vs = append(vs, x)
			}
		}
	}
	faultFree := func(o *Obs) bool { return len(o.Faults) == 0 }
	switch prop {
	case "C01":
		perRun(func(o *Obs) []Violation {
			if !faultFree(o) {
				return nil
			}
			return w.CheckIdentity(o, "C01")
		})
	case "C02":
		if len(p.Procs) == 0 {
			perRun(func(o *Obs) []Violation {
				if !faultFree(o) {
					return nil
				}
				return w.CheckCycles(out, o)
			})
		} else {
			// with substituting processors start-up may legitimately fail, but it terminates
			perRun(func(o *Obs) []Violation { return w.CheckTermination(o, "C02") })
		}
	case "C03":
		perRun(func(o *Obs) []Violation { return w.CheckIdentity(o, "C03") })
	case "C06":
		perRun(func(o *Obs) []Violation {
			return append(w.CheckTypeInjection(out, o), w.CheckQueryByInterface(o)...)
		})
	case "C07":
		perRun(func(o *Obs) []Violation {
			if !faultFree(o) {
				return nil
			}
			return w.CheckByName(out, o)
		})
	case "C08":
		perRun(func(o *Obs) []Violation { return w.CheckNarrowing(out, o) })
	case "C04":
		perRun(func(o *Obs) []Violation {
			return append(append(CheckRegistryTrace(o.Reg), w.CheckContinuation(out, o)...), w.CheckEarlyOnce(o)...)
		})
	case "C05":
		// (runs with an injected callback failure are judged too: once per creation attempt, and
		// in lifecycle order, holds on every run)
		perRun(func(o *Obs) []Violation { return w.CheckLifecycle(out, o) })
	case "C09":
		perRun(func(o *Obs) []Violation { return w.CheckCleanFailure(out, o) })
	case "C12":
		perRun(func(o *Obs) []Violation {
			if !faultFree(o) {
				return nil
			}
			return w.CheckOrdering(o)
		})
	case "C13":
		perRun(func(o *Obs) []Violation { return w.CheckRunners(o) })
	case "C15":
		perRun(func(o *Obs) []Violation { return w.CheckConfigMerge(o) })
	case "C18":
		perRun(func(o *Obs) []Violation {
			if !faultFree(o) {
				return nil
			}
			return w.CheckConfigStages(o)
		})
	case "C11":
		perRun(func(o *Obs) []Violation { return w.CheckFrameAndTags(o) })
	case "C14":
		perRun(func(o *Obs) []Violation { return w.CheckClose(o) })
	case "C10":
		var ff []*Obs
		var idx []int
		for i, o := range runs {
			if faultFree(o) {
				ff = append(ff, o)
				idx = append(idx, i)
			}
		}
		for _, x := range w.CheckSweep(out, ff) {
			x.Runs = idx
			vs = append(vs, x)
		}
	}
	return dedup(vs)
}

func dedup(vs []Violation) []Violation {
	seen := map[string]bool{}
	var out []Violation
	for _, x := range vs {
		k := x.Property + "|" + x.Oracle + "|" + x.Key
		if len(x.Runs) == 1 {
			k += "|" + string(rune('0'+x.Runs[0]%64))
		}
		if seen[k] {
			continue
		}
		seen[k] = true
		out = append(out, x)
	}
	return out
}
