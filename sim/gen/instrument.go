package gen

import (
	"bytes"
	"fmt"
	"go/ast"
	"go/parser"
	"go/printer"
	"go/token"
	"path/filepath"
	"strconv"
)

// Instrument inserts a simyield.Point call before every statement of every function body
// (nested blocks and function literals included) of one Go source file.
func Instrument(filename string, src []byte) ([]byte, int, error) {
	fset := token.NewFileSet()
	f, err := parser.ParseFile(fset, filename, src, parser.ParseComments)
	if err != nil {
		return nil, 0, err
	}
	n := 0
	base := filepath.Base(filename)
	var rewriteBlock func(b *ast.BlockStmt)
	point := func(pos token.Pos) ast.Stmt {
		n++
		site := fmt.Sprintf("%s:%d", base, fset.Position(pos).Line)
		return &ast.ExprStmt{X: &ast.CallExpr{
			Fun:  &ast.SelectorExpr{X: ast.NewIdent("simyield"), Sel: ast.NewIdent("Point")},
			Args: []ast.Expr{&ast.BasicLit{Kind: token.STRING, Value: strconv.Quote(site)}},
		}}
	}
	var visitStmt func(s ast.Stmt)
	visitExprs := func(node ast.Node) {
		ast.Inspect(node, func(x ast.Node) bool {
			if fl, ok := x.(*ast.FuncLit); ok {
				rewriteBlock(fl.Body)
				return false
			}
			return true
		})
	}
	visitStmt = func(s ast.Stmt) {
		switch st := s.(type) {
		case *ast.BlockStmt:
			rewriteBlock(st)
		case *ast.IfStmt:
			visitExprs(st.Cond)
			rewriteBlock(st.Body)
			if st.Else != nil {
				visitStmt(st.Else)
			}
		case *ast.ForStmt:
			rewriteBlock(st.Body)
		case *ast.RangeStmt:
			rewriteBlock(st.Body)
		case *ast.SwitchStmt:
			for _, c := range st.Body.List {
				cc := c.(*ast.CaseClause)
				cc.Body = rewriteList(cc.Body, point, visitStmt)
			}
		case *ast.TypeSwitchStmt:
			for _, c := range st.Body.List {
				cc := c.(*ast.CaseClause)
				cc.Body = rewriteList(cc.Body, point, visitStmt)
			}
		case *ast.ExprStmt:
			// X.Lock() / X.RLock() become cooperative: simyield.Acquire(X.TryLock)
			if call, ok := st.X.(*ast.CallExpr); ok && len(call.Args) == 0 {
				if sel, ok := call.Fun.(*ast.SelectorExpr); ok && (sel.Sel.Name == "Lock" || sel.Sel.Name == "RLock") {
					try := "TryLock"
					if sel.Sel.Name == "RLock" {
						try = "TryRLock"
					}
					st.X = &ast.CallExpr{
						Fun:  &ast.SelectorExpr{X: ast.NewIdent("simyield"), Sel: ast.NewIdent("Acquire")},
						Args: []ast.Expr{&ast.SelectorExpr{X: sel.X, Sel: ast.NewIdent(try)}},
					}
					return
				}
			}
			visitExprs(s)
		default:
			visitExprs(s)
		}
	}
	rewriteBlock = func(b *ast.BlockStmt) {
		if b == nil {
			return
		}
		b.List = rewriteList(b.List, point, visitStmt)
	}
	for _, d := range f.Decls {
		if fd, ok := d.(*ast.FuncDecl); ok && fd.Body != nil {
			rewriteBlock(fd.Body)
		}
	}
	// add the import
	imp := &ast.GenDecl{Tok: token.IMPORT, Specs: []ast.Spec{&ast.ImportSpec{Path: &ast.BasicLit{Kind: token.STRING, Value: strconv.Quote("verifsim/simyield")}}}}
	f.Decls = append([]ast.Decl{imp}, f.Decls...)
	var buf bytes.Buffer
	if err := printer.Fprint(&buf, fset, f); err != nil {
		return nil, 0, err
	}
	return buf.Bytes(), n, nil
}

func rewriteList(list []ast.Stmt, point func(token.Pos) ast.Stmt, visit func(ast.Stmt)) []ast.Stmt {
	out := make([]ast.Stmt, 0, 2*len(list))
	for _, s := range list {
		out = append(out, point(s.Pos()))
		visit(s)
		out = append(out, s)
	}
	return out
}
