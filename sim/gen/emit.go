// Package gen turns seeds into programs (SDL) and programs into Go source.
package gen

import (
	"fmt"
	"sort"
	"strings"
	"unicode"

	"verifsim/sdl"
)

// TagOf renders the struct tag of an injection point.
func TagOf(p *sdl.Point) string {
	var val string
	key := "wire"
	switch p.Sel {
	case sdl.SelType:
		val = ""
	case sdl.SelName:
		val = p.Name
	case sdl.SelFunc:
		key = "func"
		val = p.Name
	}
	var args []string
	if p.Sel == sdl.SelFunc && len(p.Returns) != 0 {
		args = append(args, "returns="+strings.Join(p.Returns, " "))
	}
	if p.Optional {
		args = append(args, "required=false")
	}
	if len(p.Quals) != 0 {
		args = append(args, "qualifier="+strings.Join(p.Quals, " "))
	}
	s := val
	for _, a := range args {
		s += "," + a
	}
	return fmt.Sprintf("%s:%q", key, s)
}

// ConfTag renders the struct tag of a configuration field.
func ConfTag(c *sdl.Conf) string {
	var key, val string
	switch c.Menu {
	case "value":
		key, val = "value", "${"+c.Keys[0]+"}"
	case "valueDef":
		key, val = "value", "${"+c.Keys[0]+":"+c.Default+"}"
	case "prop":
		key, val = "prop", c.Keys[0]
	case "propDef":
		key, val = "prop", c.Keys[0]+":"+c.Default
	case "sum":
		key, val = "value", "#{${"+c.Keys[0]+"}+${"+c.Keys[1]+"}}"
	case "mul":
		key, val = "value", "#{${"+c.Keys[0]+"}*${"+c.Keys[1]+"}}"
	case "indirect":
		key, val = "value", "#{${"+c.Keys[0]+"}}"
	case "sumDef":
		key, val = "value", "#{${"+c.Keys[0]+":"+c.Default+"}+${"+c.Keys[1]+"}}"
	case "div":
		key, val = "value", "#{${"+c.Keys[0]+"} / ${"+c.Keys[1]+"}}"
	case "cmp":
		key, val = "value", "#{${"+c.Keys[0]+"} > ${"+c.Keys[1]+"}}"
	case "tern":
		key, val = "value", "#{${"+c.Keys[0]+"} > 3 ? ${"+c.Keys[1]+"} : ${"+c.Keys[2]+"}}"
	case "concat":
		key, val = "value", "#{'${"+c.Keys[0]+"}' + '${"+c.Keys[1]+"}'}"
	case "concatPad":
		key, val = "value", "#{'${"+c.Keys[0]+"}' + ':  '}"
	case "affine":
		key, val = "value", "#{${"+c.Keys[0]+"}*${"+c.Keys[1]+"}+${"+c.Keys[2]+"}}"
	case "and":
		key, val = "value", "#{${"+c.Keys[0]+"} == "+c.Default+" && '${"+c.Keys[1]+"}' == 'va'}"
	case "mod":
		key, val = "value", "#{${"+c.Keys[0]+"} % 3}"
	case "sumDef2":
		key, val = "value", "#{${"+c.Keys[0]+":"+c.Default+"}+${"+c.Keys[1]+":"+c.Default2+"}}"
	case "typePrefixDyn":
		return "" // no tag: the field's value names its prefix
	case "prefixInt", "prefixStr", "prefixStruct", "prefixStructV", "prefixNest", "prefixReq":
		key, val = "prefix", c.Keys[0]
	case "nested":
		key, val = "value", "#{${sim.${other.sel}}+${"+c.Keys[0]+"}}"
	case "literal":
		key, val = "value", c.Default
	default:
		panic("unknown conf menu " + c.Menu)
	}
	if c.Optional {
		val += ",required=false"
	}
	if c.Validate == "struct" {
		val += ",validate" // bare argument: the struct's own field tags are the constraints
	} else if c.Validate != "" {
		val += ",validate=" + c.Validate
	}
	if c.Also != nil {
		return fmt.Sprintf("%s:%q %s", key, val, CustomTagOf(c.Also))
	}
	return fmt.Sprintf("%s:%q", key, val)
}

// CustomTagOf renders the struct tag of a custom-tag field.
func CustomTagOf(c *sdl.Custom) string {
	s := c.Val
	for _, a := range c.Args {
		s += "," + a[0]
		if len(a) > 1 {
			s += "=" + strings.Join(a[1:], " ")
		}
	}
	switch c.Via {
	case "both":
		return fmt.Sprintf("%s:%q %sh:%q", c.Tag, s, c.Tag, "hv")
	case "handler":
		return fmt.Sprintf("%sh:%q", c.Tag, s)
	}
	return fmt.Sprintf("%s:%q", c.Tag, s)
}

// IfaceName is the Go name of interface k of program p.
func IfaceName(p *sdl.Program, k int) string { return fmt.Sprintf("%sI%d", p.ID, k) }

// ifaceRef is the qualified Go expression of interface k (interfaces live in package ifc).
func ifaceRef(p *sdl.Program, k int) string { return "ifc." + IfaceName(p, k) }

// typeRef is the Go expression of a component type as seen from the main package.
func typeRef(name string) string {
	if sdl.IsAlt(name) {
		return "altprogs." + sdl.GoTypeName(name)
	}
	return name
}

func ifaceMethod(p *sdl.Program, k int) string { return fmt.Sprintf("%sM%d", p.ID, k) }

// PointGoType is the Go type of a point's field.
func PointGoType(p *sdl.Program, pt *sdl.Point) string {
	switch pt.Kind {
	case sdl.KPtr:
		return "*" + typeRef(pt.Target)
	case sdl.KPtrs:
		return "[]*" + typeRef(pt.Target)
	case sdl.KIface:
		return ifaceRef(p, pt.Iface)
	case sdl.KIfaces:
		return "[]" + ifaceRef(p, pt.Iface)
	case sdl.KAny:
		return "any"
	case sdl.KAnys:
		return "[]any"
	case sdl.KApp:
		return "*app.App"
	case sdl.KArr:
		return "[2]" + ifaceRef(p, pt.Iface)
	}
	panic("unknown point kind " + pt.Kind)
}

// CarrierTypeName is the Go type name (= embedded field name) of the carrier reached by
// chain[:depth+1] inside type t.
func CarrierTypeName(t string, chain []string, depth int) string {
	name := t + "X" + strings.Join(chain[:depth+1], "X")
	last := chain[depth]
	if last[0] == 'S' {
		// a shared carrier: one struct type, embedded wherever a chain names it
		return t + "X" + last
	}
	if unicode.IsLower(rune(last[0])) {
		// unexported carrier: type name must start lower-case
		return strings.ToLower(name[:1]) + name[1:]
	}
	return name
}

type carrier struct {
	name     string
	children []string // carrier type names embedded in this one
	fields   []string // field declarations
}

// Emit renders the Go source of the main generated package (package progs).
func Emit(progs []*sdl.Program) string {
	var b strings.Builder
	hasAlt := false
	for _, p := range progs {
		for _, t := range p.Types {
			if sdl.IsAlt(t.Name) {
				hasAlt = true
			}
		}
	}
	b.WriteString("// Code generated by verifsim/gen. DO NOT EDIT.\n\npackage progs\n\nimport (\n\t\"reflect\"\n\n\t\"github.com/go-kid/ioc/app\"\n\t\"github.com/go-kid/ioc/container\"\n\t\"github.com/go-kid/ioc/definition\"\n\t\"github.com/go-kid/ioc/syslog\"\n\n")
	if hasAlt {
		b.WriteString("\taltprogs \"verifbatch/alt/progs\"\n")
	}
	b.WriteString("\t\"verifbatch/ifc\"\n\t\"verifsim/simrt\"\n)\n\nvar _ = simrt.ErrInjected\nvar _ syslog.Logger\nvar _ *app.App\nvar _ container.Factory\nvar _ definition.PriorityComponent\nvar _ ifc.Marker\n\n")
	var typeNames []string
	localTypes := map[string]bool{}
	for _, p := range progs {
		for _, t := range p.Types {
			if t.Local {
				localTypes[t.Name] = true
			}
			if !sdl.IsAlt(t.Name) {
				emitType(&b, p, t)
			}
			typeNames = append(typeNames, t.Name)
		}
	}
	decos := map[string]bool{}
	for _, p := range progs {
		for _, pr := range p.Procs {
			for _, ru := range pr.Rules {
				if sdl.IsDeco(ru.SubType) && !decos[ru.SubType] {
					decos[ru.SubType] = true
					base := sdl.DecoBase(ru.SubType)
					fmt.Fprintf(&b, "// %sDeco decorates a %s: all methods are the component's own.\ntype %sDeco struct{ *%s }\n\n", base, base, base, base)
				}
			}
		}
	}
	b.WriteString("\n// Ifaces maps generated interface names to their types.\nvar Ifaces = map[string]reflect.Type{\n")
	for _, p := range progs {
		for k := 0; k < p.NIfaces; k++ {
			fmt.Fprintf(&b, "\t%q: reflect.TypeOf((*%s)(nil)).Elem(),\n", IfaceName(p, k), ifaceRef(p, k))
		}
	}
	b.WriteString("}\n")
	b.WriteString("\n// Types maps generated type names to their struct types.\nvar Types = map[string]reflect.Type{\n")
	for _, n := range typeNames {
		if localTypes[n] {
			fmt.Fprintf(&b, "\t%q: local%s,\n", n, n)
			continue
		}
		fmt.Fprintf(&b, "\t%q: reflect.TypeOf((*%s)(nil)).Elem(),\n", n, typeRef(n))
	}
	for _, n := range sdl.SortedKeys(decos) {
		fmt.Fprintf(&b, "\t%q: reflect.TypeOf((*%sDeco)(nil)).Elem(),\n", n, sdl.DecoBase(n))
	}
	b.WriteString("}\n")
	return b.String()
}

// EmitIfc renders package ifc: every interface of the batch.
func EmitIfc(progs []*sdl.Program) string {
	var b strings.Builder
	b.WriteString("// Code generated by verifsim/gen. DO NOT EDIT.\n\npackage ifc\n\n// Marker keeps the package non-empty.\ntype Marker struct{}\n\n")
	for _, p := range progs {
		for k := 0; k < p.NIfaces; k++ {
			if p.IsSealed(k) {
				// a sealed interface: more unexported methods than any implementer has exported ones
				n := IfaceName(p, k)
				fmt.Fprintf(&b, "type %s interface {\n\t%s()\n", n, ifaceMethod(p, k))
				for h := 0; h < sealedHidden; h++ {
					fmt.Fprintf(&b, "\th%s%d()\n", n, h)
				}
				fmt.Fprintf(&b, "}\ntype %sBase struct{}\n", n)
				for h := 0; h < sealedHidden; h++ {
					fmt.Fprintf(&b, "func (%sBase) h%s%d() {}\n", n, n, h)
				}
				continue
			}
			fmt.Fprintf(&b, "type %s interface{ %s() }\n", IfaceName(p, k), ifaceMethod(p, k))
		}
	}
	return b.String()
}

// EmitAlt renders the alt package (same package name, other import path): provider types
// that share their Go name with a type of the main package. "" if the batch has none.
func EmitAlt(progs []*sdl.Program) string {
	var b strings.Builder
	n := 0
	b.WriteString("// Code generated by verifsim/gen. DO NOT EDIT.\n\npackage progs\n\nimport (\n\t\"verifbatch/ifc\"\n\t\"verifsim/simrt\"\n)\n\nvar _ = simrt.ErrInjected\nvar _ ifc.Marker\n\n")
	for _, p := range progs {
		for _, t := range p.Types {
			if sdl.IsAlt(t.Name) {
				alt := *t
				alt.Name = sdl.GoTypeName(t.Name)
				alt.Points, alt.Config, alt.Frame, alt.Custom, alt.Logger = nil, nil, nil, nil, false
				emitType(&b, p, &alt)
				n++
			}
		}
	}
	if n == 0 {
		return ""
	}
	return b.String()
}

// sealedHidden is the number of unexported methods of a sealed interface.
const sealedHidden = 24

// confGoTypes: non-scalar Go types of configuration fields (SDL name -> Go type).
var confGoTypes = map[string]string{"float": "float64", "ints": "[]int", "intp": "*int", "dur": "simrt.Dur", "strmap": "map[string]string", "cfgpv": "*simrt.CfgPV", "cfgpd": "*simrt.CfgPD"}

func emitType(b *strings.Builder, p *sdl.Program, t *sdl.Type) {
	if t.Local {
		// a type declared inside a function: package path and name are those of every other
		// "Local" type of the batch
		base := "simrt.LocalBase"
		if t.Primary {
			base = "simrt.LocalPrimary"
		}
		switch t.Role {
		case "closer":
			base = "simrt.LocalCloser"
		case "runner":
			base = "simrt.LocalRunner"
		}
		mixin := ""
		switch t.Mixin {
		case "empty":
			mixin = "\ttype Mixin struct{}\n"
			base += "; Mixin"
		case "log":
			mixin = "\ttype Mixin struct {\n\t\tLog syslog.Logger `logger:\"\"`\n\t}\n"
			base += "; Mixin"
		}
		fmt.Fprintf(b, "var local%s = func() reflect.Type {\n%s\ttype Local struct{ %s }\n\treturn reflect.TypeOf(Local{})\n}()\n\n", t.Name, mixin, base)
		return
	}
	// collect carriers
	carriers := map[string]*carrier{}
	var siblings []string // empty structs that make a promoted Prefix() ambiguous
	top := &carrier{name: t.Name}
	carriers[""] = top
	getCarrier := func(chain []string) *carrier {
		cur := top
		for d := range chain {
			key := strings.Join(chain[:d+1], "/")
			if chain[d][0] == 'S' {
				key = "shared:" + chain[d]
			}
			c, ok := carriers[key]
			if !ok {
				c = &carrier{name: CarrierTypeName(t.Name, chain, d)}
				carriers[key] = c
			}
			isChild := false
			for _, ch := range cur.children {
				if ch == c.name {
					isChild = true
				}
			}
			if !isChild {
				cur.children = append(cur.children, c.name)
				if chain[d] == "P0" {
					cur.children = append(cur.children, c.name+"A")
					siblings = append(siblings, c.name+"A")
				}
			}
			cur = c
		}
		return cur
	}
	for _, pt := range t.Points {
		c := getCarrier(pt.Embed)
		decl := fmt.Sprintf("%s %s `%s`", pt.GoName(), PointGoType(p, pt), TagOf(pt))
		if pt.Anon {
			// an embedded interface that carries the tag itself: a field like any other
			decl = fmt.Sprintf("%s `%s`", PointGoType(p, pt), TagOf(pt))
		}
		dup := false
		for _, f := range c.fields {
			if f == decl {
				dup = true // the shared carrier declares the field once
			}
		}
		if !dup {
			c.fields = append(c.fields, decl)
		}
	}
	for _, cf := range t.Config {
		c := getCarrier(cf.Embed)
		gt := cf.GoType
		if gt == "struct" {
			gt = "simrt.CfgAB"
		}
		if gt == "nest" {
			gt = "simrt.CfgNest"
		}
		if gt == "req" {
			gt = "simrt.CfgReq"
		}
		if gt == "structV" {
			gt = "simrt.CfgABV"
		}
		if g, ok := confGoTypes[gt]; ok {
			gt = g
		}
		if cf.Anon {
			c.fields = append(c.fields, fmt.Sprintf("%s `%s`", gt, ConfTag(cf)))
			continue
		}
		if cf.Menu == "typePrefix" || cf.Menu == "typePrefixDyn" {
			// no tag at all: the field's type names the prefix
			c.fields = append(c.fields, fmt.Sprintf("%s %s", cf.Field, gt))
			continue
		}
		c.fields = append(c.fields, fmt.Sprintf("%s %s `%s`", cf.Field, gt, ConfTag(cf)))
	}
	if t.Logger {
		c := getCarrier(t.LogEmbed)
		if t.Logger2 != "" && t.Log2First {
			c.fields = append(c.fields, fmt.Sprintf("Log2 syslog.Logger `logger:%q`", t.Logger2))
		}
		c.fields = append(c.fields, "Log syslog.Logger `logger:\"\"`")
		if t.Logger2 != "" && !t.Log2First {
			c.fields = append(c.fields, fmt.Sprintf("Log2 syslog.Logger `logger:%q`", t.Logger2))
		}
	}
	for _, cu := range t.Custom {
		c := getCarrier(cu.Embed)
		if cu.Anon {
			c.fields = append(c.fields, fmt.Sprintf("simrt.Mark `%s`", CustomTagOf(cu)))
			continue
		}
		c.fields = append(c.fields, fmt.Sprintf("%s int `%s`", cu.Field, CustomTagOf(cu)))
	}
	var extra []string // extra type declarations (frame helpers)
	for _, fr := range t.Frame {
		gt := fr.GoType
		switch fr.Kind {
		case "untagged":
			top.fields = append(top.fields, fmt.Sprintf("%s %s", fr.Field, gt))
		case "unexported":
			tag := "wire:\"\""
			if gt == "int" || gt == "string" {
				tag = "value:\"5\""
			}
			top.fields = append(top.fields, fmt.Sprintf("%s %s `%s`", fr.Field, gt, tag))
		case "foreign":
			top.fields = append(top.fields, fmt.Sprintf("%s %s `json:\"%s\"`", fr.Field, gt, strings.ToLower(fr.Field)))
		case "lookalike":
			// foreign tags that merely contain a recognised tag name
			tag := "hardwire:\"\" json:\"wire:x\""
			if gt == "int" || gt == "string" {
				tag = "default_value:\"3\" json:\"value:7\" xprefix:\"sim\" my_simx:\"v\""
			}
			top.fields = append(top.fields, fmt.Sprintf("%s %s `%s`", fr.Field, gt, tag))
		case "named":
			hn := t.Name + "N" + fr.Field
			extra = append(extra, fmt.Sprintf("type %s struct {\n\tX %s `%s`\n}\n", hn, gt, frameInnerTag(gt)))
			top.fields = append(top.fields, fmt.Sprintf("%s %s", fr.Field, hn))
		case "taggedEmbed":
			hn := t.Name + "G" + fr.Field
			extra = append(extra, fmt.Sprintf("type %s struct {\n\tX%s %s `%s`\n}\n", hn, fr.Field, gt, frameInnerTag(gt)))
			top.fields = append(top.fields, fmt.Sprintf("%s `json:\"emb\"`", hn))
		case "prefixer":
			// an untagged by-value struct whose POINTER type names a configuration prefix
			top.fields = append(top.fields, fmt.Sprintf("%s simrt.CfgPD", fr.Field))
		case "ptrEmbed", "ptrEmbedSet":
			hn := t.Name + "Q" + fr.Field
			extra = append(extra, fmt.Sprintf("type %s struct {\n\tY%s %s `%s`\n}\n", hn, fr.Field, gt, frameInnerTag(gt)))
			top.fields = append(top.fields, fmt.Sprintf("*%s", hn))
		default:
			panic("unknown frame kind " + fr.Kind)
		}
	}
	// emit carriers (sorted for stable output), top last
	keys := make([]string, 0, len(carriers))
	for k := range carriers {
		if k != "" {
			keys = append(keys, k)
		}
	}
	sort.Strings(keys)
	for _, e := range extra {
		b.WriteString(e)
	}
	for _, sb := range siblings {
		fmt.Fprintf(b, "type %s struct{}\n\nfunc (%s) Prefix() string { return \"amb\" }\n", sb, sb)
	}
	for _, k := range keys {
		c := carriers[k]
		fmt.Fprintf(b, "type %s struct {\n", c.name)
		for _, ch := range c.children {
			fmt.Fprintf(b, "\t%s\n", ch)
		}
		for _, f := range c.fields {
			fmt.Fprintf(b, "\t%s\n", f)
		}
		b.WriteString("}\n")
		if strings.HasSuffix(c.name, "XP0") {
			fmt.Fprintf(b, "func (%s) Prefix() string { return \"sim.sub\" }\n", c.name)
		}
	}
	var bases []string
	for _, k := range t.Ifaces {
		if p.IsSealed(k) {
			bases = append(bases, "ifc."+IfaceName(p, k)+"Base")
		}
	}
	if t.Zero {
		if t.Scalar && len(bases) == 0 {
			fmt.Fprintf(b, "type %s int32\n", t.Name)
		} else if len(bases) != 0 {
			fmt.Fprintf(b, "type %s struct {\n\t%s\n}\n", t.Name, strings.Join(bases, "\n\t"))
		} else {
			fmt.Fprintf(b, "type %s struct{}\n", t.Name)
		}
		for _, k := range t.Ifaces {
			fmt.Fprintf(b, "func (c *%s) %s() {}\n", t.Name, ifaceMethod(p, k))
		}
		for _, fn := range t.Funcs {
			fmt.Fprintf(b, "func (c *%s) %s() {}\n", t.Name, fn)
		}
		if t.Primary {
			fmt.Fprintf(b, "func (c *%s) Primary() {}\n", t.Name)
		}
		if t.Lazy {
			fmt.Fprintf(b, "func (c *%s) LazyInit() {}\n", t.Name)
		}
		switch t.Role {
		case "runner":
			fmt.Fprintf(b, "func (c *%s) Run() error { return simrt.ZeroRun(%q) }\n", t.Name, t.Name)
		case "closer":
			fmt.Fprintf(b, "func (c *%s) Close() error { return simrt.ZeroClose(%q) }\n", t.Name, t.Name)
		}
		b.WriteString("\n")
		return
	}
	fmt.Fprintf(b, "type %s struct {\n\tSim *simrt.Handle\n", t.Name)
	if t.OrderMixin && (t.OrderClass == "ordered" || t.OrderClass == "priority") {
		b.WriteString("\tsimrt.OrdMix\n")
		if t.OrderClass == "priority" {
			b.WriteString("\tdefinition.PriorityComponent\n")
		}
	}
	for _, bs := range bases {
		fmt.Fprintf(b, "\t%s\n", bs)
	}
	for _, ch := range top.children {
		fmt.Fprintf(b, "\t%s\n", ch)
	}
	for _, f := range top.fields {
		fmt.Fprintf(b, "\t%s\n", f)
	}
	b.WriteString("}\n")
	r := "func (c *" + t.Name + ") "
	fmt.Fprintf(b, "%sNaming() string { return c.Sim.Alias }\n", r)
	if t.Qual {
		fmt.Fprintf(b, "%sQualifier() string { return c.Sim.Qual }\n", r)
	}
	if t.Primary {
		fmt.Fprintf(b, "%sPrimary() {}\n", r)
	}
	if t.Lazy {
		fmt.Fprintf(b, "%sLazyInit() {}\n", r)
	}
	if t.Init {
		fmt.Fprintf(b, "%sInit() error { return c.Sim.OnInit(c) }\n", r)
	}
	if t.FactoryPP {
		fmt.Fprintf(b, "%sPostProcessComponentFactory(factory container.Factory) error { return c.Sim.OnFactoryHook() }\n", r)
	}
	if t.DefRegPP {
		fmt.Fprintf(b, "%sPostProcessDefinitionRegistry(registry container.DefinitionRegistry, component any, componentName string) error {\n\treturn nil\n}\n", r)
	}
	if t.APS {
		fmt.Fprintf(b, "%sAfterPropertiesSet() error { return c.Sim.OnAPS(c) }\n", r)
	}
	switch t.Role {
	case "runner":
		fmt.Fprintf(b, "%sRun() error { return c.Sim.OnRun(c) }\n", r)
	case "closer":
		fmt.Fprintf(b, "%sClose() error { return c.Sim.OnClose(c) }\n", r)
	}
	if t.Role == "runner" && t.AlsoCloser {
		fmt.Fprintf(b, "%sClose() error { return c.Sim.OnClose(c) }\n", r)
	}
	oc := t.OrderClass
	if t.OrderMixin && (oc == "ordered" || oc == "priority") {
		oc = "mixin" // both methods are promoted from embedded structs
	}
	switch oc {
	case "ordered":
		fmt.Fprintf(b, "%sOrder() int { return c.Sim.Ord }\n", r)
	case "priority":
		fmt.Fprintf(b, "%sOrder() int { return c.Sim.Ord }\n%sPriority() {}\n", r, r)
	case "marker":
		// the Priority marker alone: not Ordered, hence an unordered participant
		fmt.Fprintf(b, "%sPriority() {}\n", r)
	}
	for _, k := range t.Ifaces {
		fmt.Fprintf(b, "%s%s() {}\n", r, ifaceMethod(p, k))
	}
	for _, fn := range t.Funcs {
		fmt.Fprintf(b, "%s%s() {}\n", r, fn)
	}
	if t.HasKind {
		fmt.Fprintf(b, "%sSimKind() string { return c.Sim.OnKind() }\n", r)
	}
	if t.Proc {
		fmt.Fprintf(b, "%sPostProcessBeforeInitialization(component any, componentName string) (any, error) {\n\treturn c.Sim.OnProc(\"before\", component, componentName)\n}\n", r)
		fmt.Fprintf(b, "%sPostProcessAfterInitialization(component any, componentName string) (any, error) {\n\treturn c.Sim.OnProc(\"after\", component, componentName)\n}\n", r)
	}
	b.WriteString("\n")
}

func frameInnerTag(gt string) string {
	if gt == "int" || gt == "string" {
		return `value:"5"`
	}
	return `wire:""`
}
