package gen

import (
	"fmt"
	"math/rand/v2"

	"verifsim/model"
	"verifsim/sdl"
)

// Families of generated programs.
const (
	FamWire     = "wire"     // dependency graphs, no substitution
	FamByName   = "byname"   // wire with many by-name points, more of them unsatisfiable
	FamWrapName = "wrapname" // acyclic: a named component is substituted by a wrapper of another type that alone fits the requesting field
	FamLarge    = "large"    // wire with 20-120 types / up to some hundred components (thorough tier)
	FamSubst    = "subst"    // wire + substituting post-processors
	FamLife     = "life"     // observing processors, runners, lazy components
	FamClose    = "close"    // closers
	FamConfig   = "config"   // configuration sources and fields
	FamCfgMerge = "cfgmerge" // configuration sources; fields never fail the start (precedence family)
	FamEmbed    = "embed"    // twins: flat vs embedded, frame fields, custom scanners
	FamRace     = "race"     // many components, custom scanners (parallel mode)
)

type rng struct{ *rand.Rand }

func newRng(seed uint64) rng      { return rng{rand.New(rand.NewPCG(seed, seed*0x9e3779b97f4a7c15+1))} }
func (r rng) p(prob float64) bool { return r.Float64() < prob }
func (r rng) n(lo, hi int) int {
	if hi <= lo {
		return lo
	}
	return lo + r.IntN(hi-lo+1)
}
func pick[T any](r rng, xs []T) T { return xs[r.IntN(len(xs))] }

var (
	qualVals = []string{"q0", "q1", "q2", "Q0", "Q1"}
	// what a component may declare as its qualifier: any string, also one with blanks in it
	// (which no requested set written in a tag can contain)
	instQualVals = []string{"q0", "q1", "q2", "Q0", "Q1", "q0", "q1", "q2", "q0 q1", "q1 q2", "q2 Q0", ""}
	kindVals     = []string{"ka", "kb"}
	funcVals     = []string{"SimFnA", "SimFnB"}
)

// Knobs is the per-program swarm configuration.
type Knobs struct {
	MinTypes, MaxTypes int
	MaxInstPerType     int
	MaxPoints          int
	PSatisfiable       float64 // bias: required points get a non-empty candidate set
	PLazy              float64
	PInit              float64
	PEmbed             float64
	PByName            float64
	PFunc              float64
	POptional          float64
	PQual              float64
	PPrimary           float64
	PDup               float64
	PSlice             float64
	PInitLookup        float64
	PProcComp          float64
	PZero              float64
	PAlt               float64
}

func wireKnobs(r rng) Knobs {
	k := Knobs{MinTypes: 2, MaxTypes: 5, MaxInstPerType: 3, MaxPoints: 3, PSatisfiable: 0.92,
		PLazy: 0.2, PInit: 0.5, PEmbed: 0.2, PByName: 0.25, PFunc: 0.12, POptional: 0.25, PQual: 0.3, PPrimary: 0.2, PDup: 0.03, PSlice: 0.35, PInitLookup: 0.12, PProcComp: 0.15, PZero: 0.12, PAlt: 0.12}
	// swarm: per program, switch some features off or up
	if r.p(0.3) {
		k.PLazy = 0
	}
	if r.p(0.2) {
		k.PLazy = 0.6
	}
	if r.p(0.3) {
		k.PByName = 0
	}
	if r.p(0.3) {
		k.PFunc = 0
	}
	if r.p(0.3) {
		k.PQual = 0
	}
	if r.p(0.2) {
		k.PQual = 0.7
	}
	if r.p(0.25) {
		k.POptional = 0
	}
	if r.p(0.15) {
		k.POptional = 0.6
	}
	if r.p(0.2) {
		k.PSlice = 0.7
	}
	if r.p(0.2) {
		k.PSatisfiable = 1
	}
	if r.p(0.2) {
		k.MaxTypes = 8
		k.MaxPoints = 4
	}
	if r.p(0.3) {
		k.MaxInstPerType = 1
	}
	return k
}

// Generate builds one program of the given family from a seed.
func Generate(seed uint64, id, family string) *sdl.Program {
	r := newRng(seed)
	switch family {
	case FamWire:
		p := genGraph(r, seed, id, family, wireKnobs(r))
		// some holders come with a slice point that already holds one of its candidates, or with
		// fallback objects of the application in their single-valued points
		for _, i := range p.Instances {
			if r.p(0.1) {
				i.Prefilled = true
			}
			if r.p(0.05) {
				i.Fallback = true
			}
		}
		// function-local types of one name, one of them Primary, and a holder that asks for
		// "any component" - the unique Primary of the program wins
		hasPrimary := false
		for _, t := range p.Types {
			hasPrimary = hasPrimary || t.Primary
		}
		if !hasPrimary && r.p(0.1) && len(p.Duplicates()) == 0 {
			n := len(p.Instances)
			for z := 0; z < r.n(2, 3); z++ {
				t := &sdl.Type{Name: fmt.Sprintf("%sL%d", id, z), Local: true, Primary: z == 1}
				p.Types = append(p.Types, t)
				p.Instances = append(p.Instances, &sdl.Instance{ID: fmt.Sprintf("c%d", n+z), Type: t.Name, Alias: fmt.Sprintf("loc%d", n+z)})
			}
			h := &sdl.Type{Name: id + "TA", Points: []*sdl.Point{{Field: "F0", Kind: sdl.KAny, Sel: sdl.SelType, Optional: r.p(0.3)}}}
			p.Types = append(p.Types, h)
			p.Instances = append(p.Instances, &sdl.Instance{ID: fmt.Sprintf("c%d", len(p.Instances)), Type: h.Name})
		}
		// a definition registered programmatically while the container refreshes, and a lazy
		// consumer that a lookup creates after Run: it must find the late definition
		if r.p(0.12) && len(p.Duplicates()) == 0 {
			q := p.NIfaces
			p.NIfaces++
			n := len(p.Instances)
			reg := &sdl.Type{Name: id + "TM", Ifaces: []int{q}, Init: true}
			lt := &sdl.Type{Name: id + "TL", Ifaces: []int{q}, Lazy: true}
			z := &sdl.Type{Name: id + "TZ", Lazy: true, Points: []*sdl.Point{{Field: "F0", Kind: sdl.KIfaces, Iface: q, Sel: sdl.SelType, Optional: r.p(0.5)}}}
			p.Types = append(p.Types, reg, lt, z)
			p.Instances = append(p.Instances,
				&sdl.Instance{ID: fmt.Sprintf("c%d", n), Type: reg.Name},
				&sdl.Instance{ID: fmt.Sprintf("c%d", n+1), Type: lt.Name, Alias: "late", Contributed: true, ContribBy: fmt.Sprintf("c%d", n)},
				&sdl.Instance{ID: fmt.Sprintf("c%d", n+2), Type: z.Name})
			if r.p(0.6) {
				// an eager holder that asks for the same type BEFORE the late definition exists
				// (its name sorts in front of the registering component's)
				kind := sdl.KIfaces
				if r.p(0.3) {
					kind = sdl.KIface
				}
				k := &sdl.Type{Name: id + "TK", Points: []*sdl.Point{{Field: "F0", Kind: kind, Iface: q, Sel: sdl.SelType, Optional: r.p(0.5)}}}
				if r.p(0.6) {
					// it also asks for the late definition by name, too early to find it; the lazy
					// consumer asks for the same name once it exists
					k.Points = append(k.Points, &sdl.Point{Field: "F1", Kind: pick(r, []string{sdl.KAny, sdl.KIface}), Iface: q, Sel: sdl.SelName, Name: "late", Optional: true})
					// (optional: something that asks for every component by type may create the lazy
					// consumer before the definition exists)
					z.Points = append(z.Points, &sdl.Point{Field: "F1", Kind: pick(r, []string{sdl.KAny, sdl.KIface}), Iface: q, Sel: sdl.SelName, Name: "late", Optional: true})
				}
				p.Types = append(p.Types, k)
				p.Instances = append(p.Instances, &sdl.Instance{ID: fmt.Sprintf("c%d", n+3), Type: k.Name})
			}
		}
		// a custom scanner that refuses the definition of some components, always: start-up
		// must be refused whatever the schedule of the scanning phase
		if r.p(0.07) && len(p.Duplicates()) == 0 && len(p.Instances) >= 3 {
			p.Scanners = []*sdl.Scanner{{ID: "scan0", Tag: "simx"}}
			for n := r.n(1, 2); n > 0; n-- {
				if i := pick(r, p.Instances); !i.Contributed && !p.TypeByName(i.Type).Zero {
					p.Refuse = append(p.Refuse, i.ID)
				}
			}
		}
		return p
	case FamLarge:
		k := wireKnobs(r)
		k.MinTypes, k.MaxTypes = 20, 120
		k.MaxInstPerType = r.n(1, 3)
		k.PSatisfiable, k.PDup = 1, 0
		k.MaxPoints = 3
		return genGraph(r, seed, id, FamWire, k)
	case FamByName:
		k := wireKnobs(r)
		k.PByName, k.PFunc, k.PSatisfiable, k.POptional = 0.6, 0.05, 0.75, 0.4
		k.MaxPoints = 4
		p := genGraph(r, seed, id, family, k)
		// a share of the holders gets an optional point that stays unsatisfied in front of
		// a by-name point whose name is absent / of an incompatible type (required or optional)
		for _, t := range p.Types {
			if t.Zero || sdl.IsAlt(t.Name) || !r.p(0.3) {
				continue
			}
			pre := &sdl.Point{Field: "FA", Kind: sdl.KPtr, Target: t.Name, Sel: sdl.SelName, Name: "absent-optional", Optional: true}
			if r.p(0.5) {
				pre = &sdl.Point{Field: "FA", Kind: sdl.KIfaces, Iface: r.IntN(p.NIfaces), Sel: sdl.SelType, Optional: true, Quals: []string{"q-none"}}
			}
			post := &sdl.Point{Field: "FZ", Kind: sdl.KPtr, Target: t.Name, Sel: sdl.SelName, Name: "absent-required", Optional: r.p(0.3)}
			if r.p(0.3) {
				post.Kind, post.Target = sdl.KAny, ""
			}
			if r.p(0.3) && len(p.Instances) > 0 {
				post.Name = p.NameOf(pick(r, p.Instances)) // may be of an incompatible type
			} else if r.p(0.4) {
				// the default (package/type) name of a component that declares a custom name:
				// nothing is registered under it
				for _, i := range p.Instances {
					nOfType := 0
					for _, j := range p.Instances {
						if j.Type == i.Type {
							nOfType++
						}
					}
					if i.Alias != "" && i.Type != t.Name && nOfType == 1 && !p.TypeByName(i.Type).Zero && p.ByNameCount(sdl.DefaultName(i.Type)) == 0 {
						post.Name = sdl.DefaultName(i.Type)
						if post.Kind == sdl.KPtr {
							post.Target = i.Type
						}
						break
					}
				}
			}
			t.Points = append(append([]*sdl.Point{pre}, t.Points...), post)
		}
		// two component types of identical layout (nothing but the handle): a name registered for
		// the one is requested through a pointer field of the other - convertible, not assignable
		if r.p(0.3) && len(p.Duplicates()) == 0 {
			a := &sdl.Type{Name: id + "TWa", Init: r.p(0.3)}
			b := &sdl.Type{Name: id + "TWb", Lazy: r.p(0.3)}
			var holders []*sdl.Type
			for _, t := range p.Types {
				if !t.Zero && !sdl.IsAlt(t.Name) {
					holders = append(holders, t)
				}
			}
			if len(holders) != 0 {
				n := len(p.Instances)
				p.Types = append(p.Types, a, b)
				p.Instances = append(p.Instances, &sdl.Instance{ID: fmt.Sprintf("c%d", n), Type: a.Name, Alias: "twin"})
				if r.p(0.5) {
					p.Instances = append(p.Instances, &sdl.Instance{ID: fmt.Sprintf("c%d", n+1), Type: b.Name})
				}
				h := pick(r, holders)
				h.Points = append(h.Points, &sdl.Point{Field: "FT", Kind: sdl.KPtr, Target: b.Name, Sel: sdl.SelName, Name: "twin", Optional: r.p(0.5)})
			}
		}
		for _, i := range p.Instances {
			if r.p(0.3) {
				i.Preset = true
			}
			if r.p(0.15) {
				i.Fallback = true
			}
		}
		// requested names written as placeholders (with a default), next to an optional
		// configuration field whose key is absent
		p.Sources = []*sdl.Source{{ID: "src0", Kind: "raw", Via: "SetConfigLoader", Doc: map[string]any{"sim": map[string]any{"a": r.n(1, 9)}}}}
		if r.p(0.5) {
			p.Sources[0].Doc["pick"] = map[string]any{"name": p.NameOf(pick(r, p.Instances))}
		}
		for _, t := range p.Types {
			if t.Zero || sdl.IsAlt(t.Name) || !r.p(0.3) {
				continue
			}
			tgt := pick(r, p.Instances)
			pt := &sdl.Point{Field: "FP", Kind: sdl.KAny, Sel: sdl.SelName, Name: "${pick.name:" + p.NameOf(tgt) + "}", Optional: r.p(0.5)}
			if r.p(0.5) {
				pt.Name = "${pick.absent:" + p.NameOf(tgt) + "}"
			}
			t.Points = append(t.Points, pt)
			if r.p(0.7) {
				t.Config = append(t.Config, &sdl.Conf{Field: "CP", Menu: "value", Keys: []string{"absent.key"}, GoType: pick(r, []string{"int", "string"}), Optional: true})
			}
		}
		return p
	case FamWrapName:
		return genWrapName(r, seed, id)
	case FamSubst:
		p := genGraph(r, seed, id, family, substKnobs(r))
		addSubstProcs(r, p)
		return p
	case FamLife:
		p := genGraph(r, seed, id, family, lifeKnobs(r))
		addLifeStuff(r, p)
		return p
	case FamClose:
		return genClose(r, seed, id)
	case FamConfig:
		return genConfig(r, seed, id, false)
	case FamCfgMerge:
		return genConfig(r, seed, id, true)
	case FamEmbed:
		return genEmbed(r, seed, id)
	case FamRace:
		return genRace(r, seed, id)
	}
	panic("unknown family " + family)
}

func substKnobs(r rng) Knobs {
	k := wireKnobs(r)
	k.PSatisfiable = 1
	k.PDup = 0
	k.PByName = 0.15
	k.PFunc = 0
	k.PLazy = 0.1
	k.PInitLookup = 0.3
	k.PInit = 0.8
	k.PProcComp, k.PZero, k.PAlt = 0.08, 0, 0 // (components that are post-processors may sit on a substituted cycle)
	return k
}

func lifeKnobs(r rng) Knobs {
	k := wireKnobs(r)
	k.PSatisfiable = 1
	k.PDup = 0
	k.PInit = 0.8
	if k.PLazy == 0 && r.p(0.5) {
		k.PLazy = 0.3
	}
	k.PProcComp, k.PZero, k.PAlt = 0, 0, 0
	return k
}

// genGraph generates types, instances and injection points.
func genGraph(r rng, seed uint64, id, family string, k Knobs) *sdl.Program {
	p := &sdl.Program{ID: id, Seed: seed, Family: family}
	p.NIfaces = r.n(1, 3)
	for q := 0; q < p.NIfaces; q++ {
		if r.p(0.12) {
			p.Sealed = append(p.Sealed, q) // an interface with unexported methods
		}
	}
	nT := r.n(k.MinTypes, k.MaxTypes)
	for ti := 0; ti < nT; ti++ {
		t := &sdl.Type{Name: fmt.Sprintf("%sT%d", id, ti)}
		for q := 0; q < p.NIfaces; q++ {
			if r.p(0.5) {
				t.Ifaces = append(t.Ifaces, q)
			}
		}
		t.Init = r.p(k.PInit)
		t.APS = r.p(0.25)
		t.Qual = r.p(0.45)
		t.Primary = r.p(k.PPrimary)
		t.Lazy = r.p(k.PLazy)
		for _, f := range funcVals {
			if r.p(0.3) {
				t.Funcs = append(t.Funcs, f)
			}
		}
		t.HasKind = r.p(0.3)
		if r.p(0.1) {
			t.Logger = true
			t.LogEmbed = embedChain(r, k.PEmbed)
			if r.p(0.4) {
				t.Logger2, t.Log2First = "LPw", r.p(0.6)
			}
		}
		p.Types = append(p.Types, t)
	}
	// instances
	ni := 0
	alias := 0
	for _, t := range p.Types {
		n := r.n(1, k.MaxInstPerType)
		unnamedUsed := false
		for j := 0; j < n; j++ {
			inst := &sdl.Instance{ID: fmt.Sprintf("c%d", ni), Type: t.Name}
			ni++
			if unnamedUsed || r.p(0.45) {
				inst.Alias = fmt.Sprintf("n%d", alias)
				if alias > 0 && r.p(0.12) {
					// a name that differs from an earlier one in capitalisation only
					inst.Alias = fmt.Sprintf("N%d", r.IntN(alias))
					for _, o := range p.Instances {
						if o.Alias == inst.Alias {
							inst.Alias = fmt.Sprintf("n%d", alias)
						}
					}
				}
				alias++
				if r.p(0.05) {
					// a custom name is taken as declared, blanks at its ends included
					inst.Alias = " " + inst.Alias + " "
				} else if !t.Qual && r.p(0.05) {
					// a component that declares no qualifier but is NAMED like one
					q := pick(r, qualVals)
					free := true
					for _, o := range p.Instances {
						free = free && o.Alias != q
					}
					if free {
						inst.Alias = q
					}
				}
			} else {
				unnamedUsed = true
			}
			if t.Qual {
				inst.Qual = pick(r, instQualVals)
			}
			if t.HasKind {
				inst.Kind = pick(r, kindVals)
			}
			p.Instances = append(p.Instances, inst)
		}
	}
	if r.p(k.PDup) && len(p.Instances) >= 2 {
		// duplicate name: two instances with one alias
		a, b := p.Instances[r.IntN(len(p.Instances))], p.Instances[r.IntN(len(p.Instances))]
		if r.p(0.5) {
			// ... of one type, where the program has two of a type
			for _, x := range p.Instances {
				if x != a && x.Type == a.Type {
					b = x
				}
			}
		}
		if a != b {
			if a.Alias == "" {
				a.Alias = "dupname"
			}
			b.Alias = a.Alias
		}
	}
	// a share of the programs has components that are themselves observing post-processors
	// (created while the processor list is being built) ...
	if r.p(k.PProcComp) {
		for n := 0; n < r.n(1, 2); n++ {
			t := pick(r, p.Types)
			t.Proc = true
			if r.p(0.4) {
				t.Lazy = true
			}
		}
	}
	// ordinary components that also carry a factory hook or a definition-registry hook
	for _, t := range p.Types {
		if r.p(0.06) {
			t.FactoryPP = true
		} else if r.p(0.04) {
			t.DefRegPP = true
		}
	}
	// ... or field-less (zero-size) providers, which may share one address
	if r.p(k.PZero) {
		nz := r.n(2, 3)
		for z := 0; z < nz; z++ {
			t := &sdl.Type{Name: fmt.Sprintf("%sZ%d", id, z), Zero: true, Ifaces: []int{r.IntN(p.NIfaces)}, Scalar: r.p(0.4)}
			if r.p(0.5) {
				t.Funcs = []string{pick(r, funcVals)}
			}
			if z > 0 && r.p(0.7) {
				t.Ifaces = p.Types[len(p.Types)-1].Ifaces
			}
			if z == nz-1 && r.p(0.4) {
				t.Primary = true // the one field-less candidate that must win
			}
			if r.p(0.15) {
				t.Lazy = true
			}
			p.Types = append(p.Types, t)
			p.Instances = append(p.Instances, &sdl.Instance{ID: fmt.Sprintf("c%d", ni), Type: t.Name})
			ni++
		}
	}
	// a provider type in a second package with the same package name and the same type name
	// as a main-package type (two distinct types whose short name "progs.<Name>" is equal)
	var altPair [2]string
	if r.p(k.PAlt) {
		var mains []*sdl.Type
		for _, t := range p.Types {
			if !t.Zero {
				mains = append(mains, t)
			}
		}
		tm := pick(r, mains)
		ta := &sdl.Type{Name: tm.Name + sdl.AltSuffix, Init: r.p(0.5), Qual: r.p(0.4), Primary: r.p(0.2), Lazy: r.p(0.2)}
		for q := 0; q < p.NIfaces; q++ {
			if r.p(0.5) {
				ta.Ifaces = append(ta.Ifaces, q)
			}
		}
		p.Types = append(p.Types, ta)
		for j := 0; j < r.n(1, 2); j++ {
			inst := &sdl.Instance{ID: fmt.Sprintf("c%d", ni), Type: ta.Name}
			ni++
			if j > 0 {
				inst.Alias = fmt.Sprintf("n%d", alias)
				alias++
			}
			if ta.Qual {
				inst.Qual = pick(r, instQualVals)
			}
			p.Instances = append(p.Instances, inst)
		}
		altPair = [2]string{tm.Name, ta.Name}
	}
	// points
	for _, t := range p.Types {
		if t.Zero || sdl.IsAlt(t.Name) {
			continue
		}
		if altPair[0] != "" && r.p(0.5) {
			// one holder asks for both namesakes by type
			kind := sdl.KPtr
			if r.p(0.5) {
				kind = sdl.KPtrs
			}
			t.Points = append(t.Points, &sdl.Point{Field: "FM", Kind: kind, Target: altPair[0], Sel: sdl.SelType, Optional: r.p(0.5)},
				&sdl.Point{Field: "FN", Kind: kind, Target: altPair[1], Sel: sdl.SelType, Optional: r.p(0.5)})
		}
		np := r.n(0, k.MaxPoints)
		for j := 0; j < np; j++ {
			pt := genPoint(r, p, t, k, fmt.Sprintf("F%d", j))
			t.Points = append(t.Points, pt)
		}
		if k.PFunc > 0 && r.p(0.08) {
			// two func points of one holder that accept different results: what the first accepts
			// is no business of the second
			t.Points = append(t.Points,
				&sdl.Point{Field: "FK1", Kind: sdl.KAnys, Sel: sdl.SelFunc, Name: "SimKind", Returns: []string{"ka"}, Optional: true},
				&sdl.Point{Field: "FK2", Kind: sdl.KAnys, Sel: sdl.SelFunc, Name: "SimKind", Returns: []string{"kb"}, Optional: true})
		}
	}
	// an injection point declared as an embedded interface that carries the tag itself (only in
	// types that declare the interface's method themselves: the promoted one stays shadowed)
	if family != FamEmbed {
		for _, t := range p.Types {
			if t.Zero || sdl.IsAlt(t.Name) || len(t.Ifaces) == 0 || !r.p(0.07) {
				continue
			}
			q := pick(r, t.Ifaces)
			if p.IsSealed(q) {
				continue
			}
			pt := &sdl.Point{Field: "FE", Kind: sdl.KIface, Iface: q, Sel: sdl.SelType, Anon: true, GoField: IfaceName(p, q), Optional: r.p(0.4)}
			if r.p(0.5) {
				var pool []*sdl.Instance
				for _, i := range p.Instances {
					if hasIface(p.TypeByName(i.Type), q) && i.Type != t.Name {
						pool = append(pool, i)
					}
				}
				if len(pool) != 0 {
					pt.Sel, pt.Name = sdl.SelName, p.NameOf(pick(r, pool))
				}
			}
			t.Points = append(t.Points, pt)
		}
	}
	repairSatisfiable(r, p, k)
	// a share of the initialising components look another component up by name from inside
	// Init / AfterPropertiesSet (cycles closed during initialization)
	for _, i := range p.Instances {
		t := p.TypeByName(i.Type)
		if (t.Init || t.APS) && r.p(k.PInitLookup) && len(p.Instances) > 1 {
			tgt := pick(r, p.Instances)
			if tgt != i {
				i.InitLookups = append(i.InitLookups, tgt.ID)
				// sometimes the lookup is mutual: a cycle made of lookups only
				if tt := p.TypeByName(tgt.Type); (tt.Init || tt.APS) && r.p(0.3) {
					tgt.InitLookups = append(tgt.InitLookups, i.ID)
				}
			}
		}
	}
	return p
}

// repairSatisfiable biases programs towards satisfiable required points: a required point
// that has no admissible candidate for some holder loses its qualifier, and if that does
// not help becomes optional - each with probability PSatisfiable, so a share of
// unsatisfiable points remains.
func repairSatisfiable(r rng, p *sdl.Program, k Knobs) {
	for _, t := range p.Types {
		for _, pt := range t.Points {
			if pt.Optional {
				continue
			}
			empty := func() bool {
				w := model.NewWorld(p, nil)
				for _, i := range p.Instances {
					if i.Type == t.Name && w.Resolve(i, pt).Empty() {
						return true
					}
				}
				return false
			}
			if !empty() || !r.p(k.PSatisfiable) {
				continue
			}
			pt.Quals = nil
			if empty() {
				pt.Optional = true
			}
		}
	}
}

func typesWithIface(p *sdl.Program, q int) []*sdl.Type {
	var out []*sdl.Type
	for _, t := range p.Types {
		for _, x := range t.Ifaces {
			if x == q {
				out = append(out, t)
			}
		}
	}
	return out
}

func embedChain(r rng, pEmbed float64) []string {
	if !r.p(pEmbed) {
		return nil
	}
	depth := r.n(1, 3)
	var chain []string
	for d := 0; d < depth; d++ {
		if r.p(0.3) {
			chain = append(chain, fmt.Sprintf("e%d", r.IntN(2)))
		} else if r.p(0.12) {
			// a carrier whose type happens to have a value-receiver Prefix() string method: still
			// nothing but an untagged embedded struct (the emitter embeds a sibling with the same
			// method next to it, so that the method is not promoted to the component itself)
			chain = append(chain, "P0")
		} else {
			chain = append(chain, fmt.Sprintf("E%d", r.IntN(2)))
		}
	}
	return chain
}

func genPoint(r rng, p *sdl.Program, holder *sdl.Type, k Knobs, field string) *sdl.Point {
	pt := &sdl.Point{Field: field, Sel: sdl.SelType}
	pt.Embed = embedChain(r, k.PEmbed)
	pt.Optional = r.p(k.POptional)
	slice := r.p(k.PSlice)
	useIface := r.p(0.5)
	satisfiable := r.p(k.PSatisfiable)
	// choose the declared type
	if useIface {
		q := r.IntN(p.NIfaces)
		if satisfiable {
			// prefer an interface some other type implements
			for try := 0; try < 6; try++ {
				ts := typesWithIface(p, q)
				if len(ts) > 1 || (len(ts) == 1 && ts[0] != holder) {
					break
				}
				q = r.IntN(p.NIfaces)
			}
		}
		pt.Iface = q
		pt.Kind = sdl.KIface
		if slice {
			pt.Kind = sdl.KIfaces
		}
	} else {
		t := pick(r, p.Types)
		if satisfiable && t == holder && len(p.Types) > 1 && r.p(0.8) {
			for t == holder {
				t = pick(r, p.Types)
			}
		}
		pt.Target = t.Name
		pt.Kind = sdl.KPtr
		if slice {
			pt.Kind = sdl.KPtrs
		}
	}
	if r.p(0.015) {
		// a fixed-size array with a wire tag: no injection point at all (nothing is ever a
		// candidate: required fails the start, optional stays as it is)
		pt.Target, pt.Kind, pt.Iface = "", sdl.KArr, r.IntN(p.NIfaces)
		return pt
	}
	if r.p(0.05) {
		// typed any / []any and selected by type: every registered component is a candidate
		pt.Target, pt.Iface, pt.Kind = "", 0, sdl.KAny
		if slice {
			pt.Kind = sdl.KAnys
		}
		if r.p(k.PQual) {
			pt.Quals = []string{pick(r, qualVals)}
		}
		return pt
	}
	sel := r.Float64()
	switch {
	case sel < k.PByName && !slice:
		pt.Sel = sdl.SelName
		if r.p(0.12) {
			pt.Kind = sdl.KAny
			pt.Target = ""
		}
		// requested name
		x := r.Float64()
		var pool []*sdl.Instance
		for _, i := range p.Instances {
			t := p.TypeByName(i.Type)
			ok := pt.Kind == sdl.KAny || (pt.Kind == sdl.KPtr && t.Name == pt.Target) || (pt.Kind == sdl.KIface && hasIface(t, pt.Iface))
			if ok {
				pool = append(pool, i)
			}
		}
		switch {
		case (x < 0.8 || satisfiable) && len(pool) != 0:
			pt.Name = p.NameOf(pick(r, pool))
		case x < 0.9:
			pt.Name = p.NameOf(pick(r, p.Instances)) // possibly of an incompatible type
		default:
			pt.Name = "absent-name"
		}
	case sel < k.PByName+k.PFunc:
		pt.Sel = sdl.SelFunc
		if r.p(0.3) {
			if slice {
				pt.Kind = sdl.KAnys
			} else {
				pt.Kind = sdl.KAny
			}
			pt.Target = ""
		}
		if r.p(0.35) {
			pt.Name = "SimKind"
			pt.Returns = []string{pick(r, kindVals)}
			if r.p(0.3) {
				pt.Returns = []string{"ka", "kb"}
			}
			if r.p(0.15) {
				pt.Returns = []string{"*"}
			}
			if r.p(0.15) {
				// alternatives that overlap: a component that fits several of them is still one candidate
				pt.Returns = pick(r, [][]string{{"ka", "*"}, {"kb", "kb"}, {"*", "ka", "kb"}})
			}
		} else {
			pt.Name = pick(r, funcVals)
		}
	}
	if r.p(k.PQual) && pt.Sel != sdl.SelName {
		pt.Quals = []string{pick(r, qualVals)}
		if r.p(0.4) {
			pt.Quals = append(pt.Quals, pick(r, qualVals))
			if pt.Quals[0] == pt.Quals[1] {
				pt.Quals = pt.Quals[:1]
			}
		}
		if r.p(0.15) {
			pt.Quals = pick(r, [][]string{{"q0", "q1"}, {"q1", "q2"}, {"q2", "Q0"}})
		}
		if r.p(0.1) {
			// the empty string as a requested value (`qualifier=`, or a trailing blank): it selects
			// components that DECLARE the empty qualifier, not those that declare none
			pt.Quals = pick(r, [][]string{{""}, {"q0", ""}, {"q1", ""}})
		}
	}
	return pt
}

func hasIface(t *sdl.Type, k int) bool {
	for _, x := range t.Ifaces {
		if x == k {
			return true
		}
	}
	return false
}
