package gen

import (
	"fmt"

	"verifsim/sdl"
)

var orderClasses = []string{"", "ordered", "priority"}
var orderVals = []int{-2147483648, -7, -1, 0, 0, 1, 1, 2, 5, 2147483647}

// addSubstProcs adds 1-2 substituting post-processors with a wrap plan.
func addSubstProcs(r rng, p *sdl.Program) {
	nProc := r.n(1, 2)
	slot := 0
	for i := 0; i < nProc; i++ {
		pr := &sdl.Proc{ID: fmt.Sprintf("pp%d", i), Class: "smart", OrderClass: pick(r, orderClasses), Order: pick(r, orderVals)}
		if r.p(0.2) {
			pr.Class = "inst"
		}
		if r.p(0.1) {
			pr.Class = "plain"
		}
		nWrap := r.n(1, 2)
		for w := 0; w < nWrap; w++ {
			tgt := pick(r, p.Instances)
			var plan []string
			switch r.IntN(7) {
			case 0:
				plan = []string{sdl.CbEarly}
			case 1:
				plan = []string{sdl.CbBefore}
			case 2, 3:
				plan = []string{sdl.CbAfter}
			case 4:
				plan = []string{sdl.CbBeforeInst}
			case 5:
				plan = []string{sdl.CbEarly, sdl.CbAfter} // consistent: same substitute
			case 6:
				plan = []string{sdl.CbEarly, "!" + sdl.CbAfter} // inconsistent: different substitutes
			}
			base := fmt.Sprintf("s%d", slot)
			slot++
			for _, at := range plan {
				s := base
				if at[0] == '!' {
					at = at[1:]
					s = base + "b"
				}
				if pr.Class == "plain" && (at == sdl.CbEarly || at == sdl.CbBeforeInst) {
					continue
				}
				if pr.Class == "inst" && at == sdl.CbEarly {
					continue
				}
				pr.Rules = append(pr.Rules, &sdl.Rule{Target: tgt.ID, At: at, Action: "substitute", Sub: s})
			}
		}
		p.Procs = append(p.Procs, pr)
	}
}

// addLifeStuff adds observing processors of all order classes, runners and lazy mixes.
func addLifeStuff(r rng, p *sdl.Program) {
	// one plain observing processor is always present
	p.Procs = append(p.Procs, &sdl.Proc{ID: "pp0", Class: "plain"})
	n := r.n(0, 3)
	classes := []string{"plain", "inst", "smart"}
	for i := 1; i <= n; i++ {
		p.Procs = append(p.Procs, &sdl.Proc{ID: fmt.Sprintf("pp%d", i), Class: pick(r, classes), OrderClass: pick(r, orderClasses), Order: pick(r, orderVals), Props: r.p(0.5)})
	}
	// runners: dedicated types
	nr := r.n(0, 5)
	if r.p(0.15) {
		nr = 0
	}
	base := len(p.Types)
	ni := len(p.Instances)
	for i := 0; i < nr; i++ {
		t := &sdl.Type{Name: fmt.Sprintf("%sT%d", p.ID, base+i), Role: "runner", OrderClass: pick(r, orderClasses), Init: r.p(0.5), Lazy: r.p(0.25)}
		p.Types = append(p.Types, t)
		cnt := 1
		if r.p(0.3) {
			cnt = 2
		}
		for j := 0; j < cnt; j++ {
			inst := &sdl.Instance{ID: fmt.Sprintf("c%d", ni), Type: t.Name, Order: pick(r, orderVals)}
			if j > 0 {
				inst.Alias = fmt.Sprintf("r%d", ni)
			}
			ni++
			p.Instances = append(p.Instances, inst)
		}
		// a runner may depend on ordinary components
		if r.p(0.4) && base > 0 {
			tt := p.Types[r.IntN(base)]
			t.Points = append(t.Points, &sdl.Point{Field: "F0", Kind: sdl.KPtrs, Target: tt.Name, Sel: sdl.SelType, Optional: true})
		}
	}
}

func genClose(r rng, seed uint64, id string) *sdl.Program {
	p := &sdl.Program{ID: id, Seed: seed, Family: FamClose, NIfaces: 1}
	n := r.n(0, 12)
	if r.p(0.1) {
		n = 0
	}
	ni := 0
	nt := 0
	for ni < n {
		t := &sdl.Type{Name: fmt.Sprintf("%sT%d", id, nt), Role: "closer", Lazy: r.p(0.3), Init: r.p(0.3)}
		nt++
		p.Types = append(p.Types, t)
		cnt := r.n(1, 3)
		for j := 0; j < cnt && ni < n; j++ {
			inst := &sdl.Instance{ID: fmt.Sprintf("c%d", ni), Type: t.Name}
			if j > 0 || r.p(0.3) {
				inst.Alias = fmt.Sprintf("cl%d", ni)
			}
			ni++
			p.Instances = append(p.Instances, inst)
		}
	}
	// a few ordinary components
	for j := 0; j < r.n(0, 2); j++ {
		t := &sdl.Type{Name: fmt.Sprintf("%sT%d", id, nt), Init: true, Ifaces: []int{0}}
		nt++
		p.Types = append(p.Types, t)
		p.Instances = append(p.Instances, &sdl.Instance{ID: fmt.Sprintf("c%d", ni), Type: t.Name})
		ni++
	}
	return p
}

func genConfig(r rng, seed uint64, id string) *sdl.Program {
	p := &sdl.Program{ID: id, Seed: seed, Family: FamConfig, NIfaces: 1}
	return p
}

func genEmbed(r rng, seed uint64, id string) *sdl.Program {
	return genGraph(r, seed, id, FamEmbed, wireKnobs(r))
}

func genRace(r rng, seed uint64, id string) *sdl.Program {
	p := &sdl.Program{ID: id, Seed: seed, Family: FamRace, NIfaces: 1}
	return p
}
