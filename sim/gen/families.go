package gen

import (
	"encoding/json"
	"fmt"
	"math"
	"strings"
	"verifsim/model"

	"verifsim/sdl"
)

var orderClasses = []string{"", "ordered", "priority"}
var orderVals = []int{math.MinInt, math.MinInt + 1, -2147483648, -7, -1, 0, 0, 1, 1, 2, 5, 2147483647, math.MaxInt - 1, math.MaxInt}

// addSubstProcs adds 1-2 substituting post-processors with a wrap plan.
func addSubstProcs(r rng, p *sdl.Program) {
	// some holders come hand-wired: their determined single-valued points already hold the
	// raw target object before the container starts
	for _, i := range p.Instances {
		if r.p(0.15) {
			i.Prewired = true
		}
	}
	for _, i := range p.Instances {
		if len(i.InitLookups) != 0 && r.p(0.3) {
			i.Tolerant = true
		}
	}
	nProc := r.n(1, 2)
	slot := 0
	for i := 0; i < nProc; i++ {
		pr := &sdl.Proc{ID: fmt.Sprintf("pp%d", i), Class: "smart", OrderClass: pick(r, orderClasses), Order: pick(r, orderVals)}
		if r.p(0.2) {
			pr.Class = "inst"
			if r.p(0.4) {
				// ... that declines (PostProcessAfterInstantiation answers false) and sits between the
				// container's candidate collection (Order 2) and its narrowing (Order 4)
				pr.OrderClass, pr.Order = "ordered", 3
			}
		}
		if r.p(0.1) {
			pr.Class = "plain"
		}
		nWrap := r.n(1, 2)
		for w := 0; w < nWrap; w++ {
			tgt := pick(r, p.Instances)
			var plan []string
			switch r.IntN(8) {
			case 7:
				// short-circuit: the processor answers before instantiation with the registered
				// instance itself
				plan = []string{"=" + sdl.CbBeforeInst}
			case 0:
				plan = []string{sdl.CbEarly}
			case 1:
				plan = []string{sdl.CbBefore}
			case 2, 3:
				plan = []string{sdl.CbAfter}
			case 4:
				plan = []string{sdl.CbBeforeInst}
			case 5:
				plan = []string{sdl.CbEarly, sdl.CbAfter} // consistent: same substitute
			case 6:
				plan = []string{sdl.CbEarly, "!" + sdl.CbAfter} // inconsistent: different substitutes
			}
			base := fmt.Sprintf("s%d", slot)
			slot++
			for _, at := range plan {
				s := base
				action := "substitute"
				if at[0] == '!' {
					at = at[1:]
					s = base + "b"
				}
				if at[0] == '=' {
					at = at[1:]
					action, s = "self", ""
				}
				if pr.Class == "plain" && (at == sdl.CbEarly || at == sdl.CbBeforeInst) {
					continue
				}
				if pr.Class == "inst" && at == sdl.CbEarly {
					continue
				}
				ru := &sdl.Rule{Target: tgt.ID, At: at, Action: action, Sub: s, Fresh: action == "substitute" && r.p(0.15)}
				if tt := p.TypeByName(tgt.Type); len(plan) == 1 && action == "substitute" && (at == sdl.CbBefore || at == sdl.CbAfter) && !tt.Zero && !tt.Local && !sdl.IsAlt(tt.Name) && !ru.Fresh && !hasSinglePtrPoint(p, tt.Name) && r.p(0.3) {
					// a decorator that embeds the component: its Init / AfterPropertiesSet are the component's
					ru.SubType = sdl.DecoOf(tt.Name)
				}
				pr.Rules = append(pr.Rules, ru)
				if at == sdl.CbBeforeInst && action == "substitute" && len(p.Instances) >= 2 && r.p(0.4) {
					// the hook first looks another component up, then answers with its substitute
					if b := pick(r, p.Instances); b.ID != tgt.ID {
						pr.Rules = append(pr.Rules, &sdl.Rule{Target: tgt.ID, At: sdl.CbBeforeInst, Action: "lookup", Sub: b.ID, Tolerant: r.p(0.4)})
					}
				}
			}
		}
		if pr.Class != "plain" && len(p.Instances) >= 2 && r.p(0.25) {
			// the processor looks another component up while it handles this one (a cycle can be
			// closed from inside an instantiation-aware callback)
			a := pick(r, p.Instances)
			b := pick(r, p.Instances)
			if a.ID != b.ID {
				pr.Rules = append(pr.Rules, &sdl.Rule{Target: a.ID, At: pick(r, []string{sdl.CbAfterInst, sdl.CbAfterInst, sdl.CbProps, sdl.CbBefore, sdl.CbBeforeInst}), Action: "lookup", Sub: b.ID, Tolerant: r.p(0.4)})
				pr.Props = true
			}
		}
		p.Procs = append(p.Procs, pr)
	}
	// a component whose early reference is substituted asks for itself by name through a field of
	// one of its own interfaces, declared in front of its other points: it is handed its own
	// early substitute (not itself, so not filtered) and becomes the first dependent on record
	for _, pr := range p.Procs {
		for _, ru := range pr.Rules {
			if ru.Action != "substitute" || ru.At != sdl.CbEarly || !r.p(0.35) {
				continue
			}
			tgt := p.InstByID(ru.Target)
			if tgt == nil {
				continue
			}
			t := p.TypeByName(tgt.Type)
			if t.Zero || t.Local || len(t.Ifaces) == 0 || p.IsSealed(t.Ifaces[0]) {
				continue
			}
			has := false
			for _, pt := range t.Points {
				has = has || pt.Field == "FS"
			}
			if !has {
				t.Points = append([]*sdl.Point{{Field: "FS", Kind: sdl.KIface, Iface: t.Ifaces[0], Sel: sdl.SelName, Name: p.NameOf(tgt), Optional: true}}, t.Points...)
			}
		}
	}
	// look-ups from a before-instantiation hook preferably lead back to the component that is
	// being instantiated: its partner on a dependency cycle is looked up
	{
		w := model.NewWorld(p, nil)
		out := w.StartOutcome()
		needs := map[string]map[string]bool{}
		for _, i := range p.Instances {
			needs[i.ID] = w.Needs(out, i.ID)
		}
		for _, pr := range p.Procs {
			for _, ru := range pr.Rules {
				if ru.Action != "lookup" || ru.At != sdl.CbBeforeInst || !r.p(0.7) {
					continue
				}
				var partners []string
				for _, b := range p.Instances {
					if b.ID != ru.Target && needs[b.ID][ru.Target] && needs[ru.Target][b.ID] {
						partners = append(partners, b.ID)
					}
				}
				if len(partners) != 0 {
					ru.Sub = pick(r, partners)
				}
			}
		}
		// ... and a share of the programs gets such a hook on purpose, half of them coping with
		// the refusal
		if r.p(0.2) {
			var pairs [][2]string
			for _, a := range p.Instances {
				for _, b := range p.Instances {
					if a.ID != b.ID && needs[a.ID][b.ID] && needs[b.ID][a.ID] {
						pairs = append(pairs, [2]string{a.ID, b.ID})
					}
				}
			}
			for _, pr := range p.Procs {
				if pr.Class != "plain" && len(pairs) != 0 {
					ab := pick(r, pairs)
					pr.Rules = append(pr.Rules, &sdl.Rule{Target: ab[0], At: sdl.CbBeforeInst, Action: "lookup", Sub: ab[1], Tolerant: r.p(0.5)})
					pr.Props = true
					break
				}
			}
		}
	}
	// a substituted component and one of its holders carry names that differ in capitalisation
	// only (the order in which the two are created must still be a fixed one)
	if r.p(0.2) && len(p.Duplicates()) == 0 {
		var tgt *sdl.Instance
		for _, pr := range p.Procs {
			for _, ru := range pr.Rules {
				if ru.Action == "substitute" && (ru.At == sdl.CbAfter || ru.At == sdl.CbBefore) && tgt == nil {
					tgt = p.InstByID(ru.Target)
				}
			}
		}
		if tgt != nil && !p.TypeByName(tgt.Type).Zero {
			w := model.NewWorld(p, nil)
			back := w.Needs(w.StartOutcome(), tgt.ID)
			var holders []*sdl.Instance
			for _, h := range p.Instances {
				if h == tgt || p.TypeByName(h.Type).Zero || !back[h.ID] {
					continue // (only holders the substituted component needs in turn: a cycle)
				}
				for _, pt := range p.TypeByName(h.Type).Points {
					for _, c := range w.Resolve(h, pt).Cands {
						if c == tgt.ID {
							holders = append(holders, h)
						}
					}
				}
			}
			if len(holders) != 0 {
				h := pick(r, holders)
				base := fmt.Sprintf("aq%d", r.IntN(9))
				a, b := base, "A"+base[1:]
				if r.p(0.5) {
					a, b = b, a
				}
				renameInstance(p, tgt, a)
				renameInstance(p, h, b)
			}
		}
	}
}

// renameInstance gives the instance a custom name and lets every by-name request for its old
// name follow.
func renameInstance(p *sdl.Program, inst *sdl.Instance, name string) {
	old := p.NameOf(inst)
	inst.Alias = name
	for _, t := range p.Types {
		for _, pt := range t.Points {
			if pt.Sel == sdl.SelName && pt.Name == old {
				pt.Name = name
			}
		}
	}
}

// addLifeStuff adds observing processors of all order classes, runners and lazy mixes.
func addLifeStuff(r rng, p *sdl.Program) {
	defer func() {
		// zero-size runners (distinct field-less types may share one address)
		if r.p(0.15) {
			base := len(p.Instances)
			for z := 0; z < r.n(2, 3); z++ {
				t := &sdl.Type{Name: fmt.Sprintf("%sZR%d", p.ID, z), Zero: true, Role: "runner", Scalar: r.p(0.4)}
				p.Types = append(p.Types, t)
				p.Instances = append(p.Instances, &sdl.Instance{ID: fmt.Sprintf("c%d", base+z), Type: t.Name})
			}
		}
		// runners and plain components of function-local types (same package path and name)
		if r.p(0.12) {
			base := len(p.Instances)
			for z := 0; z < r.n(2, 4); z++ {
				t := &sdl.Type{Name: fmt.Sprintf("%sL%d", p.ID, z), Local: true}
				if z%2 == 1 || r.p(0.3) {
					t.Role = "runner"
				}
				p.Types = append(p.Types, t)
				p.Instances = append(p.Instances, &sdl.Instance{ID: fmt.Sprintf("c%d", base+z), Type: t.Name, Alias: fmt.Sprintf("loc%d", base+z)})
			}
		}
		// a component whose definition is contributed by a definition-registry post-processor
		if r.p(0.15) {
			t := &sdl.Type{Name: fmt.Sprintf("%sTC", p.ID), Init: true, APS: r.p(0.3), Lazy: r.p(0.4)}
			p.Types = append(p.Types, t)
			p.Instances = append(p.Instances, &sdl.Instance{ID: fmt.Sprintf("c%d", len(p.Instances)), Type: t.Name, Contributed: true})
		}
	}()
	// one plain observing processor is always present
	p.Procs = append(p.Procs, &sdl.Proc{ID: "pp0", Class: "plain"})
	n := r.n(0, 3)
	classes := []string{"plain", "inst", "smart"}
	for i := 1; i <= n; i++ {
		pr := &sdl.Proc{ID: fmt.Sprintf("pp%d", i), Class: pick(r, classes), OrderClass: pick(r, orderClasses), Order: pick(r, orderVals), Props: r.p(0.5), Lazy: r.p(0.35)}
		if pr.Props {
			pr.PropsRet = pick(r, []string{"", "", "empty", "same", "inplace"})
		}
		if pr.OrderClass != "" && r.p(0.3) {
			// the processor settles its order in its component-factory hook
			raw := pick(r, orderVals)
			pr.OrderRaw = &raw
		}
		p.Procs = append(p.Procs, pr)
	}
	// a processor replaces the COMPONENT of another (non-lazy) processor by an object that is
	// no processor: the other keeps taking part as it was registered
	if len(p.Procs) >= 2 && r.p(0.15) {
		a, b := pick(r, p.Procs), pick(r, p.Procs)
		if a.ID != b.ID && !b.Lazy {
			a.Rules = append(a.Rules, &sdl.Rule{Target: b.ID, At: sdl.CbAfter, Action: "substitute", Sub: "px"})
		}
	}
	// runners: dedicated types
	nr := r.n(0, 5)
	if r.p(0.15) {
		nr = 0
	}
	base := len(p.Types)
	ni := len(p.Instances)
	for i := 0; i < nr; i++ {
		t := &sdl.Type{Name: fmt.Sprintf("%sT%d", p.ID, base+i), Role: "runner", OrderClass: pick(r, orderClasses), Init: r.p(0.5), Lazy: r.p(0.25)}
		if r.p(0.12) {
			t.OrderClass = "marker"
		}
		// Order() / Priority() promoted from embedded structs instead of declared by the type
		t.OrderMixin = r.p(0.2)
		p.Types = append(p.Types, t)
		cnt := 1
		if r.p(0.3) {
			cnt = 2
		}
		for j := 0; j < cnt; j++ {
			inst := &sdl.Instance{ID: fmt.Sprintf("c%d", ni), Type: t.Name, Order: pick(r, orderVals)}
			if j > 0 {
				inst.Alias = fmt.Sprintf("r%d", ni)
			}
			if t.Init && r.p(0.4) {
				// the runner works its order out while it initialises
				raw := pick(r, orderVals)
				inst.OrderRaw = &raw
				if !t.Lazy && r.p(0.5) {
					// ... holds the application component and is created before it
					hasApp := false
					for _, pt := range t.Points {
						hasApp = hasApp || pt.Kind == sdl.KApp
					}
					if !hasApp {
						t.Points = append(t.Points, &sdl.Point{Field: "FA", Kind: sdl.KApp, Sel: sdl.SelType})
					}
					inst.Alias = "a-" + inst.ID
				}
			}
			ni++
			p.Instances = append(p.Instances, inst)
		}
		// a runner may depend on ordinary components
		if r.p(0.4) && base > 0 {
			tt := p.Types[r.IntN(base)]
			t.Points = append(t.Points, &sdl.Point{Field: "F0", Kind: sdl.KPtrs, Target: tt.Name, Sel: sdl.SelType, Optional: true})
		}
	}
}

func genClose(r rng, seed uint64, id string) *sdl.Program {
	p := &sdl.Program{ID: id, Seed: seed, Family: FamClose, NIfaces: 1}
	n := r.n(0, 12)
	if r.p(0.1) {
		n = 0
	}
	ni := 0
	nt := 0
	for ni < n {
		t := &sdl.Type{Name: fmt.Sprintf("%sT%d", id, nt), Role: "closer", Lazy: r.p(0.3), Init: r.p(0.3)}
		nt++
		p.Types = append(p.Types, t)
		cnt := r.n(1, 3)
		for j := 0; j < cnt && ni < n; j++ {
			inst := &sdl.Instance{ID: fmt.Sprintf("c%d", ni), Type: t.Name}
			if j > 0 || r.p(0.3) {
				inst.Alias = fmt.Sprintf("cl%d", ni)
			}
			ni++
			p.Instances = append(p.Instances, inst)
		}
	}
	// closers that hold the application component and are created before it (their names sort
	// in front of the App's): the App reaches them while they are still in creation
	if r.p(0.2) {
		for _, i := range p.Instances {
			if t := p.TypeByName(i.Type); t.Role == "closer" && !t.Lazy && r.p(0.5) {
				hasApp := false
				for _, pt := range t.Points {
					hasApp = hasApp || pt.Kind == sdl.KApp
				}
				if !hasApp {
					t.Points = append(t.Points, &sdl.Point{Field: "FA", Kind: sdl.KApp, Sel: sdl.SelType})
				}
				i.Alias = "a-" + i.ID
			}
		}
	}
	// two closers whose names differ in a blank at the end only: two components, two definitions
	if r.p(0.15) {
		var cl []*sdl.Instance
		for _, i := range p.Instances {
			if t := p.TypeByName(i.Type); t.Role == "closer" && !strings.HasPrefix(i.Alias, "a-") {
				cl = append(cl, i)
			}
		}
		if len(cl) >= 2 {
			cl[0].Alias, cl[1].Alias = "db", "db "
		}
	}
	// zero-size closers (distinct field-less types may share one address)
	if r.p(0.2) {
		for z := 0; z < r.n(2, 3); z++ {
			t := &sdl.Type{Name: fmt.Sprintf("%sZC%d", id, z), Zero: true, Role: "closer", Scalar: r.p(0.4)}
			p.Types = append(p.Types, t)
			p.Instances = append(p.Instances, &sdl.Instance{ID: fmt.Sprintf("c%d", ni), Type: t.Name})
			ni++
		}
	}
	// closers and plain components of function-local types: distinct types that share package
	// path and type name
	if r.p(0.2) {
		for z := 0; z < r.n(2, 4); z++ {
			t := &sdl.Type{Name: fmt.Sprintf("%sL%d", id, z), Local: true}
			if z%2 == 1 || r.p(0.3) {
				t.Role = "closer"
			}
			p.Types = append(p.Types, t)
			p.Instances = append(p.Instances, &sdl.Instance{ID: fmt.Sprintf("c%d", ni), Type: t.Name, Alias: fmt.Sprintf("loc%d", ni)})
			ni++
		}
	}
	// a few ordinary components
	for j := 0; j < r.n(0, 2); j++ {
		t := &sdl.Type{Name: fmt.Sprintf("%sT%d", id, nt), Init: true, Ifaces: []int{0}}
		nt++
		p.Types = append(p.Types, t)
		p.Instances = append(p.Instances, &sdl.Instance{ID: fmt.Sprintf("c%d", ni), Type: t.Name})
		ni++
	}
	// application runners: when one of them fails, Run fails - and the application still
	// shuts the container down
	if r.p(0.35) {
		for j := 0; j < r.n(1, 2); j++ {
			// (a runner may be a closer as well; the first one of two runs first)
			t := &sdl.Type{Name: fmt.Sprintf("%sT%d", id, nt), Role: "runner", AlsoCloser: r.p(0.5), OrderClass: "ordered"}
			nt++
			p.Types = append(p.Types, t)
			p.Instances = append(p.Instances, &sdl.Instance{ID: fmt.Sprintf("c%d", ni), Type: t.Name, Order: j})
			ni++
		}
	}
	// a post-processor replaces one closer by an object of another type that has no Close()
	if r.p(0.2) {
		var victim *sdl.Instance
		other := ""
		for _, i := range p.Instances {
			t := p.TypeByName(i.Type)
			if t.Role == "closer" && !t.Zero && victim == nil {
				victim = i
			}
			if t.Role == "" && !t.Zero {
				other = t.Name
			}
		}
		if victim != nil && other != "" {
			p.Procs = append(p.Procs, &sdl.Proc{ID: "pp0", Class: "plain", Rules: []*sdl.Rule{{Target: victim.ID, At: sdl.CbAfter, Action: "substitute", Sub: "s0", SubType: other}}})
		}
	}
	return p
}

var cfgLeafInts = []string{"sim.a", "sim.b", "sim.c", "sim.sub.a", "other.n", "alt.sub.a", "sim.nest.inner.a", "alt.nest.inner.a"}
var cfgLeafStrs = []string{"sim.name", "sim.sub.b", "other.tag", "alt.sub.b", "sim.nest.b", "alt.nest.b"}
var cfgStrVals = []string{"va", "vb", "vc"}
var cfgSelVals = []string{"a", "b", "c"}

func setPath(doc map[string]any, path string, v any) {
	parts := splitDots(path)
	cur := doc
	for i, k := range parts {
		if i == len(parts)-1 {
			cur[k] = v
			return
		}
		nx, ok := cur[k].(map[string]any)
		if !ok {
			nx = map[string]any{}
			cur[k] = nx
		}
		cur = nx
	}
}

func splitDots(s string) []string {
	var out []string
	cur := ""
	for _, c := range s {
		if c == '.' {
			out = append(out, cur)
			cur = ""
		} else {
			cur += string(c)
		}
	}
	return append(out, cur)
}

// normaliseDoc turns the float64 numbers of a JSON round trip back into ints.
func normaliseDoc(m map[string]any) {
	for k, v := range m {
		switch x := v.(type) {
		case float64:
			m[k] = int(x)
		case map[string]any:
			normaliseDoc(x)
		}
	}
}

// IndirectFormula is the value of the key other.f wherever a source supplies it: an expression
// whose placeholders only appear once ${other.f} itself has been substituted.
const IndirectFormula = "${sim.a}+${sim.b}+${sim.c}"

func genDoc(r rng, density float64) map[string]any {
	doc := map[string]any{}
	for _, k := range cfgLeafInts {
		if r.p(density) {
			v := r.n(0, 9)
			if r.p(0.12) {
				v = 0 // a value that IS configured and is the zero value of its type
			}
			setPath(doc, k, v)
		}
	}
	for _, k := range cfgLeafStrs {
		if r.p(density) {
			setPath(doc, k, pick(r, cfgStrVals))
		}
	}
	if r.p(density) {
		setPath(doc, "other.sel", pick(r, cfgSelVals))
	}
	if r.p(density * 0.6) {
		// a configured value that itself consists of placeholders
		setPath(doc, "other.f", IndirectFormula)
	}
	return doc
}

// genConfig: 1-4 configuration sources of all kinds added through all options, components
// with configuration fields from the fixed menu, user processors of all order classes.
func genConfig(r rng, seed uint64, id string, merge bool) *sdl.Program {
	p := &sdl.Program{ID: id, Seed: seed, Family: FamConfig, NIfaces: 1}
	if merge {
		p.Family = FamCfgMerge
	}
	// sources
	ns := r.n(1, 4)
	if merge {
		ns = r.n(2, 4)
	}
	kinds := []string{"raw", "raw", "file", "args", "sim", "sim"}
	vias := []string{"AddConfigLoader", "AddConfigLoader", "AddLoaders", "SetConfigLoader"}
	many := merge && r.p(0.12)
	if many {
		// a long loader sequence, most of it of one rank (raw / command-line / unordered
		// simulated loaders) with overlapping keys: add order must survive sequencing
		ns = r.n(13, 24)
		kinds = []string{"raw", "raw", "raw", "raw", "args", "sim", "file"}
		vias = []string{"AddConfigLoader", "AddConfigLoader", "AddLoaders"}
	}
	for i := 0; i < ns; i++ {
		s := &sdl.Source{ID: fmt.Sprintf("src%d", i), Kind: pick(r, kinds), Via: pick(r, vias), Doc: genDoc(r, 0.55)}
		if i == 0 && r.p(0.6) {
			s.Via = "SetConfigLoader"
		}
		if s.Kind == "file" && r.p(0.5) {
			s.Via = "SetConfig"
		}
		if s.Kind == "sim" {
			s.OrderClass = pick(r, orderClasses)
			if r.p(0.12) {
				s.OrderClass = "marker"
			}
			s.Order = pick(r, []int{-3, 0, 0, 1, 2})
			if many && r.p(0.7) {
				s.OrderClass, s.Order = "", 0
			}
		}
		if len(s.Doc) == 0 {
			setPath(s.Doc, "sim.a", r.n(1, 9))
		}
		if merge && s.Kind == "args" && r.p(0.5) {
			// a command-line source that blanks a string key (`--app.config=key=`): the key is
			// supplied, with the empty string
			setPath(s.Doc, pick(r, cfgLeafStrs), pick(r, []string{"", "", "p=q", "a=b=c"}))
		}
		if !many && (r.p(0.08) || s.Kind == "file" && r.p(0.2)) {
			switch s.Kind {
			case "file":
				s.Fault = pick(r, []string{"missing", "missing", "isdir", "garbage", "empty"})
			case "sim":
				s.Fault = pick(r, []string{"error", "garbage", "empty"})
			case "raw":
				s.Fault = pick(r, []string{"garbage", "empty"})
			}
		}
		p.Sources = append(p.Sources, s)
	}
	if many {
		// the contract leaves the order among equal Order values open, and the reference merge
		// enumerates every admissible order: keep ties rare in long sequences (at most two files,
		// distinct Order values among the ordered simulated loaders)
		files, next := 0, -5
		for _, s := range p.Sources {
			switch {
			case s.Kind == "file":
				files++
				if files > 2 {
					s.Kind, s.Via = "raw", "AddConfigLoader"
				}
			case s.Kind == "sim" && s.OrderClass != "":
				s.Order = next
				next++
			}
		}
	}
	// the same document supplied twice with another one in between (A, B, A): the later
	// copy overrides B again
	if merge && len(p.Sources) >= 3 && r.p(0.3) {
		j := r.n(2, len(p.Sources)-1)
		i := r.n(0, j-2)
		if a, d := p.Sources[i], p.Sources[j]; a.Fault == "" && a.Kind != "args" {
			b, _ := json.Marshal(a.Doc)
			d.Doc = map[string]any{}
			_ = json.Unmarshal(b, &d.Doc)
			normaliseDoc(d.Doc)
			d.Kind, d.OrderClass, d.Order, d.Fault = a.Kind, a.OrderClass, a.Order, ""
		}
	}
	// one option call with several loaders, and option values reused by an earlier container
	if merge && len(p.Sources) >= 2 && r.p(0.4) {
		via := pick(r, []string{"SetConfigLoader", "SetConfigLoader", "AddConfigLoader"})
		n := r.n(2, len(p.Sources))
		for i := 0; i < n; i++ {
			p.Sources[i].Group, p.Sources[i].Via = 1, via
		}
	}
	if merge && r.p(0.35) {
		p.Warmup = true
	}
	if merge {
		for _, e := range p.Sources {
			// an ordered loader handed over by value (its type is not hashable)
			if e.Kind == "sim" && (e.OrderClass == "ordered" || e.OrderClass == "priority") && r.p(0.25) {
				e.ByValue = true
			}
		}
		// a source whose content changes while the container lives: the configuration is
		// initialised a second time and every source is merged again, in sequence
		if r.p(0.25) {
			for _, e := range model.ActiveSources(p) {
				if e.Kind == "sim" && e.Fault == "" && !e.ByValue && r.p(0.6) {
					e.Doc2 = genDoc(r, 0.5)
					if len(e.Doc2) == 0 {
						setPath(e.Doc2, "sim.a", r.n(1, 9))
					}
					break
				}
			}
		}
	}
	// reload: a source added after Run, followed by a second initialisation
	if merge && r.p(0.3) {
		s := &sdl.Source{ID: fmt.Sprintf("src%d", ns), Kind: pick(r, []string{"sim", "sim", "raw", "file"}), Via: "AddLoaders", Doc: genDoc(r, 0.5), Late: true}
		if s.Kind == "sim" {
			s.OrderClass = pick(r, orderClasses)
			s.Order = pick(r, []int{-3, 0, 1, 2})
		}
		if len(s.Doc) == 0 {
			setPath(s.Doc, "sim.b", r.n(1, 9))
		}
		// ... or it is registered by a bootstrap loader from inside its LoadConfig
		if r.p(0.4) {
			for _, e := range model.ActiveSources(p) {
				if e.Kind == "sim" && e.Fault == "" && s.SpawnedBy == "" {
					s.SpawnedBy = e.ID
				}
			}
		}
		p.Sources = append(p.Sources, s)
		// a loader that settles its order late: the second initialisation sequences it anew
		for _, e := range p.Sources {
			if e.Kind == "sim" && !e.Late && (e.OrderClass == "ordered" || e.OrderClass == "priority") && r.p(0.5) {
				o2 := pick(r, []int{-4, -1, 1, 3, 5})
				e.Order2 = &o2
			}
		}
	}
	// components with configuration fields
	nt := r.n(1, 3)
	for ti := 0; ti < nt; ti++ {
		t := &sdl.Type{Name: fmt.Sprintf("%sT%d", id, ti), Init: r.p(0.5), Ifaces: []int{0}}
		nf := r.n(1, 4)
		for fi := 0; fi < nf; fi++ {
			cf := genConf(r, fmt.Sprintf("C%d", fi))
			if merge {
				// precedence family: fields never make the start fail
				cf.Optional, cf.Validate = true, ""
				if cf.Menu == "sum" || cf.Menu == "mul" || cf.Menu == "nested" || cf.Menu == "indirect" || cf.Menu == "prefixStructV" || cf.Menu == "sumDef2" || cf.Menu == "cmp" || cf.Menu == "tern" || cf.Menu == "concat" || cf.Menu == "affine" || cf.Menu == "and" || cf.Menu == "mod" || cf.Menu == "div" || cf.Menu == "concatPad" {
					cf.Menu, cf.Keys, cf.GoType = "prefixStruct", []string{"sim.sub"}, "struct"
				}
			}
			t.Config = append(t.Config, cf)
		}
		if !merge && r.p(0.3) {
			// a holder with an injection point next to its configuration fields: its properties
			// come in two groups (component, configuration) whose relative order is not fixed
			t.Points = append(t.Points, &sdl.Point{Field: "F0", Kind: sdl.KIfaces, Iface: 0, Sel: sdl.SelType, Optional: true})
		}
		if !merge && r.p(0.15) {
			// two absent keys in one holder: the first falls back to its default, the second has
			// none (state must not travel from one placeholder to the next)
			d := &sdl.Conf{Field: fmt.Sprintf("C%d", nf), Menu: "valueDef", Keys: []string{"gone.a"}, Default: fmt.Sprint(r.n(1, 9)), GoType: "int", Optional: r.p(0.5)}
			u := &sdl.Conf{Field: fmt.Sprintf("C%d", nf+1), Menu: pick(r, []string{"value", "prop"}), Keys: []string{"gone.b"}, GoType: pick(r, []string{"int", "int", "ints", "dur"}), Optional: r.p(0.6)}
			t.Config = append(t.Config, d, u)
		}
		if !merge && r.p(0.2) {
			// a holder whose section is a matter of the instance (the application creates it):
			// different components, one field type, different sections
			t.Config = append(t.Config, &sdl.Conf{Field: "CD", Menu: "typePrefixDyn", Keys: []string{pick(r, []string{"sim.sub", "alt.sub"})}, GoType: "cfgpd"})
		}
		if !merge && r.p(0.15) {
			// a configuration holder that names its own prefix (value-receiver method), declared
			// as an untagged nil pointer
			t.Config = append(t.Config, &sdl.Conf{Field: "CT", Menu: "typePrefix", Keys: []string{"sim.sub"}, GoType: "cfgpv"})
		}
		if !merge && r.p(0.25) {
			// a struct whose constraints sit behind a pointer, in several components and sections
			t.Config = append(t.Config, &sdl.Conf{Field: "CN", Menu: "prefixNest", Keys: []string{pick(r, []string{"sim.nest", "alt.nest"})}, GoType: "nest", Validate: "struct", Optional: r.p(0.6)})
		}
		if !merge && r.p(0.12) {
			// a struct with a required by-value struct member
			t.Config = append(t.Config, &sdl.Conf{Field: "CQ", Menu: "prefixReq", Keys: []string{pick(r, []string{"sim.nest", "alt.nest"})}, GoType: "req", Validate: "struct", Optional: r.p(0.5)})
		}
		if r.p(0.2) {
			// a prefix-bound struct declared as a tagged anonymous field
			t.Config = append(t.Config, &sdl.Conf{Field: "CfgAB", Menu: "prefixStruct", Keys: []string{"sim.sub"}, GoType: "struct",
				Optional: merge || r.p(0.4), Anon: true, Embed: embedChain(r, 0.15)})
		}
		p.Types = append(p.Types, t)
		p.Instances = append(p.Instances, &sdl.Instance{ID: fmt.Sprintf("c%d", ti), Type: t.Name, PresetCfg: r.p(0.25)})
	}
	// a component with configuration fields that is itself a post-processor: created while the
	// processor list is being put together, bound and validated like any other
	if !merge && r.p(0.12) && len(p.Types) >= 1 {
		if t := pick(r, p.Types); !t.Zero && !t.Local && t.Role == "" {
			t.Proc = true
		}
	}
	// every component holds a configuration holder of one type that names its section per
	// instance, the sections alternate
	if !merge && r.p(0.1) && len(p.Types) >= 2 {
		for ti, t := range p.Types {
			var keep []*sdl.Conf
			for _, cf := range t.Config {
				if cf.Menu != "typePrefixDyn" {
					keep = append(keep, cf)
				}
			}
			t.Config = append(keep, &sdl.Conf{Field: "CD", Menu: "typePrefixDyn", Keys: []string{[]string{"sim.sub", "alt.sub"}[ti%2]}, GoType: "cfgpd"})
		}
		last := p.Sources[len(p.Sources)-1]
		setPath(last.Doc, "sim.sub.a", r.n(1, 4))
		setPath(last.Doc, "alt.sub.a", r.n(5, 9))
	}
	// several components bind one struct type whose constraints sit behind a pointer: in one
	// section the pointer stays nil (nothing is supplied below it), in the other it is set
	if !merge && r.p(0.12) && len(p.Types) >= 2 {
		for _, s := range p.Sources {
			if sim, ok := s.Doc["sim"].(map[string]any); ok {
				if nest, ok := sim["nest"].(map[string]any); ok {
					delete(nest, "inner")
				}
			}
		}
		last := p.Sources[len(p.Sources)-1]
		setPath(last.Doc, "sim.nest.b", pick(r, cfgStrVals))
		setPath(last.Doc, "alt.nest.inner.a", r.n(0, 6))
		secs := []string{"sim.nest", "alt.nest"}
		if r.p(0.3) {
			secs[0], secs[1] = secs[1], secs[0]
		}
		for ti, t := range p.Types {
			var keep []*sdl.Conf
			for _, cf := range t.Config {
				if cf.Menu != "prefixNest" && cf.Menu != "prefixReq" && cf.Menu != "typePrefix" && cf.Menu != "typePrefixDyn" {
					// (nothing else in these programs can make the start fail)
					cf.Optional, cf.Validate = true, ""
					keep = append(keep, cf)
				}
			}
			sec := secs[1]
			if ti == 0 {
				sec = secs[0]
			}
			t.Config = append(keep, &sdl.Conf{Field: "CN", Menu: "prefixNest", Keys: []string{sec}, GoType: "nest", Validate: "struct", Optional: r.p(0.5)})
		}
	}
	// the configuration changes while the container runs: an initialization callback sets a
	// key that an expression of a component created later (lazy: by a lookup after Run) reads
	// through the very same tag text
	if r.p(0.2) {
		setter := p.Types[0]
		setter.Init = true
		cf := &sdl.Conf{Field: "CL", Menu: "sumDef", Keys: []string{"late.a", pick(r, cfgLeafInts[:3])}, Default: fmt.Sprint(r.n(0, 5)), GoType: "int", Optional: true}
		if r.p(0.3) {
			cf.Validate = pick(r, []string{"max=40", "gte=0"})
		}
		setter.Config = append(setter.Config, cf)
		p.Instances[0].SetKey, p.Instances[0].SetVal = "late.a", r.n(10, 19)
		lz := &sdl.Type{Name: fmt.Sprintf("%sT%d", id, nt), Lazy: true, Init: r.p(0.5), Ifaces: []int{0}}
		dup := *cf
		dup.Embed = embedChain(r, 0.15)
		lz.Config = append(lz.Config, &dup)
		if r.p(0.5) {
			c2 := genConf(r, "C0")
			c2.Embed = nil
			lz.Config = append(lz.Config, c2)
		}
		if r.p(0.5) {
			// the first attempt to create the lazy component fails on a constraint; the
			// application then changes the configuration and asks again
			lz.Config = append(lz.Config, &sdl.Conf{Field: "CM", Menu: "sumDef", Keys: []string{"late.b", pick(r, cfgLeafInts[:3])}, Default: "0", GoType: "int", Validate: "min=10", Optional: true})
			p.PostSetKey, p.PostSetVal = "late.b", 10+r.n(0, 5)
		}
		p.Types = append(p.Types, lz)
		p.Instances = append(p.Instances, &sdl.Instance{ID: fmt.Sprintf("c%d", nt), Type: lz.Name})
	}
	// user processors interleave with the built-in configuration stages
	classes := []string{"inst", "smart", "plain"}
	for i := 0; i < r.n(0, 3); i++ {
		p.Procs = append(p.Procs, &sdl.Proc{ID: fmt.Sprintf("pp%d", i), Class: pick(r, classes), OrderClass: pick(r, orderClasses), Order: pick(r, []int{-5, 0, 1, 3, 4, 6, 9, 20}), Props: r.p(0.6), Lazy: r.p(0.3), PropsRet: pick(r, []string{"", "", "empty", "same", "inplace"})})
	}
	return p
}

func genConf(r rng, field string) *sdl.Conf {
	c := &sdl.Conf{Field: field, GoType: "int"}
	c.Embed = embedChain(r, 0.15)
	switch r.IntN(16) {
	case 15:
		// a quotient that is usually no short decimal, into a float field
		c.Menu, c.Keys, c.GoType = "div", []string{pick(r, cfgLeafInts[:3]), pick(r, cfgLeafInts[:3])}, "float"
	case 12:
		// comparison / conjunction into a bool field
		if r.p(0.5) {
			c.Menu, c.Keys, c.GoType = "cmp", []string{pick(r, cfgLeafInts[:3]), pick(r, cfgLeafInts[:3])}, "bool"
		} else {
			c.Menu, c.Keys, c.GoType, c.Default = "and", []string{pick(r, cfgLeafInts[:3]), pick(r, cfgLeafStrs[:1])}, "bool", fmt.Sprint(r.n(1, 9))
		}
	case 13:
		// conditional / three-operand arithmetic / remainder
		switch r.IntN(3) {
		case 0:
			c.Menu, c.Keys = "tern", []string{pick(r, cfgLeafInts[:3]), pick(r, cfgLeafInts[:3]), pick(r, cfgLeafInts[:3])}
		case 1:
			c.Menu, c.Keys = "affine", []string{pick(r, cfgLeafInts[:3]), pick(r, cfgLeafInts[:3]), pick(r, cfgLeafInts[:3])}
		default:
			c.Menu, c.Keys = "mod", []string{pick(r, cfgLeafInts[:3])}
			if r.p(0.5) {
				// a quotient that is no short decimal, into a float field
				c.Menu, c.Keys, c.GoType = "div", []string{pick(r, cfgLeafInts[:3]), pick(r, cfgLeafInts[:3])}, "float"
			}
		}
	case 14:
		// string concatenation inside an expression
		c.Menu, c.Keys, c.GoType = "concat", []string{pick(r, cfgLeafStrs), pick(r, cfgLeafStrs)}, "string"
		if r.p(0.4) {
			// ... whose result ends in blanks (they are part of the value)
			c.Menu, c.Keys = "concatPad", c.Keys[:1]
		}
	case 11:
		// two placeholders, each with its own default; one of the keys is usually absent
		ks := []string{pick(r, []string{"gone.a", "gone.b", pick(r, cfgLeafInts[:3])}), pick(r, cfgLeafInts[:3])}
		if r.p(0.5) {
			ks[0], ks[1] = ks[1], ks[0]
		}
		c.Menu, c.Keys, c.Default, c.Default2 = "sumDef2", ks, fmt.Sprint(r.n(10, 19)), fmt.Sprint(r.n(20, 29))
	case 10:
		c.Menu, c.Keys = "indirect", []string{"other.f"}
	case 0:
		c.Menu, c.Keys = "value", []string{pick(r, cfgLeafInts)}
	case 1:
		c.Menu, c.Keys, c.Default = "valueDef", []string{pick(r, cfgLeafInts)}, fmt.Sprint(r.n(0, 9))
	case 2:
		c.Menu, c.Keys = "prop", []string{pick(r, cfgLeafInts)}
	case 3:
		c.Menu, c.Keys = "sum", []string{pick(r, cfgLeafInts[:3]), pick(r, cfgLeafInts[:3])}
	case 4:
		c.Menu, c.Keys = "nested", []string{pick(r, cfgLeafInts[:3])}
	case 5:
		c.Menu, c.Keys = "mul", []string{pick(r, cfgLeafInts[:3]), pick(r, cfgLeafInts[:3])}
	case 6:
		c.Menu, c.Keys = "prefixInt", []string{pick(r, cfgLeafInts)}
	case 7:
		c.Menu, c.Keys, c.GoType = "prefixStruct", []string{"sim.sub"}, "struct"
		if r.p(0.5) {
			c.Menu, c.GoType = "prefixStructV", "structV"
			if r.p(0.7) {
				c.Validate = "struct"
			}
		}
	case 8:
		c.Menu, c.Keys, c.GoType = "value", []string{pick(r, cfgLeafStrs)}, "string"
	case 9:
		c.Menu, c.Default = "literal", fmt.Sprint(r.n(0, 9))
	}
	// keys that no source ever supplies: the default (if any) is used, otherwise the value
	// is missing
	nonScalar := false
	if (c.Menu == "value" || c.Menu == "valueDef" || c.Menu == "prop") && c.GoType == "int" && r.p(0.3) {
		c.Keys = []string{pick(r, []string{"gone.a", "gone.b"})}
		// a field that receives nothing may be of any type: slice, pointer, duration, map
		if c.Menu != "valueDef" && r.p(0.4) {
			c.GoType = pick(r, []string{"ints", "intp", "dur", "strmap"})
			nonScalar = true
		}
	}
	c.Optional = r.p(0.4)
	if nonScalar {
		c.Optional = r.p(0.8)
	}
	if c.GoType == "int" && r.p(0.3) {
		c.Validate = pick(r, []string{"min=3", "max=5", "required", "min=2 max=7", "gte=1", "gte=0", "max=20", "omitempty min=3", "omitempty gte=2 max=7", "max=8 omitempty min=4",
			"gt=2", "lt=6", "gt=1 lt=9", "eq=5", "ne=3", "omitempty ne=4", "lte=4"})
	}
	if c.GoType == "structV" && c.Validate != "struct" {
		c.Validate = ""
	}
	if c.GoType == "string" && r.p(0.3) {
		c.Validate = pick(r, []string{"eq=va", "required", "ne=vb", "omitempty eq=va", "len=2", "len=3", "min=3", "max=1", "min=2 max=4", "omitempty len=4"})
	}
	return c
}

func genEmbed(r rng, seed uint64, id string) *sdl.Program {
	flat, _ := GenerateTwins(seed, id, id+"e")
	return flat
}

var customTags = []string{"simx", "simy"}

// GenerateTwins builds a flat program (every tagged field declared directly on the
// component) and its embedded re-arrangement (the same fields moved into anonymous,
// untagged, by-value embedded structs of depth 1..3, exported and unexported carriers).
// Both carry frame fields of every kind and custom-tagged fields with 0-2 custom scanners.
func GenerateTwins(seed uint64, idFlat, idEmb string) (*sdl.Program, *sdl.Program) {
	r := newRng(seed)
	k := wireKnobs(r)
	k.PEmbed = 0
	k.PDup = 0
	k.MaxTypes = 4
	k.PProcComp, k.PZero, k.PAlt = 0, 0, 0
	p := genGraph(r, seed, idFlat, FamEmbed, k)
	// configuration: one raw source, a few fields that never fail
	src := &sdl.Source{ID: "src0", Kind: "raw", Via: "SetConfigLoader", Doc: genDoc(r, 0.9)}
	p.Sources = []*sdl.Source{src}
	ns := r.n(0, 2)
	for i := 0; i < ns; i++ {
		sc := &sdl.Scanner{ID: fmt.Sprintf("scan%d", i), Tag: customTags[i]}
		if r.p(0.5) {
			sc.NodeType = "Configuration"
		}
		sc.Handler = r.p(0.5)
		sc.Inventory = r.p(0.4)
		sc.Narrow = r.p(0.3)
		p.Scanners = append(p.Scanners, sc)
	}
	for _, t := range p.Types {
		t.Logger, t.LogEmbed = r.p(0.4), nil
		if t.Logger && r.p(0.5) {
			// a second logger field with an explicit prefix, in front of or behind the first
			t.Logger2, t.Log2First = pick(r, []string{"LPa", "LPb"}), r.p(0.6)
		}
		for fi := 0; fi < r.n(0, 2); fi++ {
			cf := genConf(r, fmt.Sprintf("C%d", fi))
			cf.Optional, cf.Validate, cf.Embed = true, "", nil
			if cf.Menu == "sum" || cf.Menu == "mul" || cf.Menu == "nested" || cf.Menu == "indirect" || cf.Menu == "prefixStructV" || cf.Menu == "sumDef2" || cf.Menu == "cmp" || cf.Menu == "tern" || cf.Menu == "concat" || cf.Menu == "affine" || cf.Menu == "and" || cf.Menu == "mod" || cf.Menu == "div" || cf.Menu == "concatPad" {
				cf.Menu, cf.Keys, cf.Default, cf.GoType = "valueDef", []string{pick(r, cfgLeafInts)}, "1", "int"
			}
			if len(p.Scanners) != 0 && r.p(0.35) {
				// two recognised tags on one field
				cf.Also = &sdl.Custom{Field: cf.Field, Tag: pick(r, p.Scanners).Tag, Val: pick(r, []string{"", "w1"}), Exported: true,
					Args: [][]string{{"k9", "a"}}}
			}
			t.Config = append(t.Config, cf)
		}
		// recognised tags on anonymous by-value struct fields: such a field is processed like
		// any other tagged field (it is not an untagged carrier)
		if r.p(0.25) {
			t.Config = append(t.Config, &sdl.Conf{Field: "CfgAB", Menu: "prefixStruct", Keys: []string{"sim.sub"}, GoType: "struct", Optional: true, Anon: true})
		}
		if r.p(0.25) {
			t.Custom = append(t.Custom, &sdl.Custom{Field: "Mark", Tag: pick(r, customTags), Val: pick(r, []string{"", "m1"}), Exported: true, Anon: true})
		}
		// frame fields of every kind
		kinds := []string{"untagged", "unexported", "foreign", "named", "taggedEmbed", "ptrEmbed", "lookalike", "ptrEmbedSet", "prefixer"}
		for fi, kind := range kinds {
			if !r.p(0.5) {
				continue
			}
			fr := &sdl.Frame{Kind: kind}
			if kind == "prefixer" {
				fr.GoType, fr.Field = "int", fmt.Sprintf("R%d", fi)
				t.Frame = append(t.Frame, fr)
				continue
			}
			switch r.IntN(3) {
			case 0:
				fr.GoType = "int"
			case 1:
				fr.GoType = "string"
			default:
				fr.GoType = "*" + pick(r, p.Types).Name
			}
			fr.Field = fmt.Sprintf("R%d", fi)
			if kind == "unexported" {
				fr.Field = fmt.Sprintf("r%d", fi)
			}
			t.Frame = append(t.Frame, fr)
		}
		// custom-tagged fields
		for fi := 0; fi < r.n(0, 3); fi++ {
			cu := &sdl.Custom{Field: fmt.Sprintf("X%d", fi), Tag: pick(r, customTags), Val: pick(r, []string{"", "v1", "some-value", "7"}), Exported: true}
			if r.p(0.2) {
				cu.Field = fmt.Sprintf("x%d", fi)
				cu.Exported = false
			}
			switch r.IntN(10) {
			case 0, 1:
				cu.Via = "both"
			case 2:
				cu.Via = "handler"
			}
			for ai := 0; ai < r.n(0, 2); ai++ {
				a := []string{pick(r, []string{"k", "mode", "Level"}) + fmt.Sprint(ai)}
				for vi := 0; vi < r.n(0, 2); vi++ {
					// (bracketed groups are single values, whatever they contain)
					a = append(a, pick(r, []string{"a", "b1", "zz", "a", "zz", "[p,q]", "f(x,y)", "{m,n}"}))
				}
				cu.Args = append(cu.Args, a)
			}
			t.Custom = append(t.Custom, cu)
		}
	}
	// components of function-local types that embed a function-local "Mixin": one without
	// fields, one with a logger field (distinct types, one package path, one name)
	if r.p(0.15) {
		n := len(p.Instances)
		for z, mx := range []string{"empty", "log", "empty"}[:r.n(2, 3)] {
			t := &sdl.Type{Name: fmt.Sprintf("%sTL%d", idFlat, z), Local: true, Mixin: mx, Logger: mx == "log"}
			p.Types = append(p.Types, t)
			p.Instances = append(p.Instances, &sdl.Instance{ID: fmt.Sprintf("c%d", n+z), Type: t.Name, Alias: fmt.Sprintf("loc%d", n+z)})
		}
	}
	// the twin: same program, fields moved into embedded carriers
	js := p.JSON()
	js = strings.ReplaceAll(js, idFlat+"T", idEmb+"T")
	var q sdl.Program
	_ = json.Unmarshal([]byte(js), &q)
	q.ID = idEmb
	q.Twin = idFlat
	for ti, t := range q.Types {
		for _, pt := range t.Points {
			pt.Embed = embedChain(r, 0.8)
		}
		// one carrier type embedded at two positions: a point is declared once in the shared
		// carrier and therefore exists twice in the component (flat twin: two plain fields)
		if len(t.Points) != 0 && r.p(0.3) {
			src := t.Points[0]
			dupFlat := *p.Types[ti].Points[0]
			dupFlat.Field = src.Field + "b"
			p.Types[ti].Points = append(p.Types[ti].Points, &dupFlat)
			src.Embed = []string{"E0", "S0"}
			dupEmb := *src
			dupEmb.Field, dupEmb.GoField, dupEmb.Embed = src.Field+"b", src.Field, []string{"E1", "S0"}
			t.Points = append(t.Points, &dupEmb)
		}
		for _, cf := range t.Config {
			cf.Embed = embedChain(r, 0.8)
		}
		for _, cu := range t.Custom {
			cu.Embed = embedChain(r, 0.8)
		}
		if t.Logger && !t.Local {
			t.LogEmbed = embedChain(r, 0.8)
		}
	}
	return p, &q
}

// genRace: many components, 1-3 custom scanners, closers - for real-parallel runs under
// the race detector.
func genRace(r rng, seed uint64, id string) *sdl.Program {
	p := &sdl.Program{ID: id, Seed: seed, Family: FamRace, NIfaces: 1}
	nTypes := r.n(3, 6)
	target := r.n(8, 60)
	ni := 0
	for ti := 0; ti < nTypes; ti++ {
		t := &sdl.Type{Name: fmt.Sprintf("%sT%d", id, ti), Init: r.p(0.5), Ifaces: []int{0}}
		if ti == 0 {
			t.Role = "closer"
			t.Ifaces = nil
		}
		if ti > 0 && r.p(0.6) {
			t.Points = append(t.Points, &sdl.Point{Field: "F0", Kind: sdl.KIfaces, Iface: 0, Sel: sdl.SelType, Optional: true})
		}
		if ti > 0 {
			// several types carry one and the same argument-bearing tag text (no explicit `required`):
			// whatever the scanners derive from a tag text belongs to the one field it was read from
			t.Qual = true
			if r.p(0.7) {
				t.Points = append(t.Points, &sdl.Point{Field: "FQ", Kind: sdl.KIfaces, Iface: 0, Sel: sdl.SelType, Quals: []string{"q0"}})
			}
		}
		for fi := 0; fi < r.n(0, 2); fi++ {
			t.Custom = append(t.Custom, &sdl.Custom{Field: fmt.Sprintf("X%d", fi), Tag: pick(r, customTags), Val: "v", Exported: true})
		}
		p.Types = append(p.Types, t)
		cnt := target / nTypes
		if cnt < 1 {
			cnt = 1
		}
		for j := 0; j < cnt; j++ {
			p.Instances = append(p.Instances, &sdl.Instance{ID: fmt.Sprintf("c%d", ni), Type: t.Name, Alias: fmt.Sprintf("r%d", ni), Qual: "q0"})
			ni++
		}
	}
	for i := 0; i < r.n(1, 3); i++ {
		p.Scanners = append(p.Scanners, &sdl.Scanner{ID: fmt.Sprintf("scan%d", i), Tag: customTags[i%len(customTags)]})
	}
	// configuration fields of every kind, so that the built-in configuration scanners have work
	// to do in the parallel phase (among them holders that name their own prefix, declared as
	// untagged nil pointers)
	if r.p(0.7) {
		p.Sources = []*sdl.Source{{ID: "src0", Kind: "raw", Via: "SetConfigLoader", Doc: map[string]any{"sim": map[string]any{"a": 1, "b": 2, "c": 3, "name": "va", "sub": map[string]any{"a": 4, "b": "vb"}}, "other": map[string]any{"n": 5, "tag": "vc", "sel": "a", "f": "${sim.a}+${sim.b}+${sim.c}"}}}}
		for _, t := range p.Types {
			if r.p(0.7) {
				t.Config = append(t.Config, &sdl.Conf{Field: "CT", Menu: "typePrefix", Keys: []string{"sim.sub"}, GoType: "cfgpv"})
			}
			if r.p(0.5) {
				t.Config = append(t.Config, &sdl.Conf{Field: "C0", Menu: pick(r, []string{"value", "prop", "sum", "prefixInt"}), Keys: []string{"sim.a", "sim.b"}, GoType: "int", Optional: true})
			}
			if r.p(0.3) {
				t.Config = append(t.Config, &sdl.Conf{Field: "C1", Menu: "prefixStruct", Keys: []string{"sim.sub"}, GoType: "struct", Optional: true})
			}
		}
	}
	return p
}

// genWrapName: an acyclic program in which a named provider X is substituted, around its
// initialization, by a wrapper W of another type; a holder requests X by name through a
// field that only the wrapper fits (an interface X does not implement, or any).
func genWrapName(r rng, seed uint64, id string) *sdl.Program {
	p := &sdl.Program{ID: id, Seed: seed, Family: FamWrapName, NIfaces: 3}
	x := &sdl.Type{Name: id + "T0", Ifaces: []int{0}, Init: r.p(0.5), Lazy: r.p(0.3)}
	w := &sdl.Type{Name: id + "T1", Ifaces: []int{0, 1}, Init: r.p(0.3)}
	h := &sdl.Type{Name: id + "T2", Init: r.p(0.5)}
	p.Types = []*sdl.Type{x, w, h}
	xi := &sdl.Instance{ID: "c0", Type: x.Name}
	if r.p(0.6) {
		xi.Alias = "svc"
	}
	p.Instances = []*sdl.Instance{xi, {ID: "c1", Type: h.Name}}
	pt := &sdl.Point{Field: "F0", Kind: sdl.KIface, Iface: 1, Sel: sdl.SelName, Name: p.NameOf(xi), Optional: r.p(0.3)}
	if r.p(0.25) {
		pt.Kind = sdl.KAny
	}
	if r.p(0.25) {
		pt.Kind, pt.Iface = sdl.KIface, 0 // both the component and its wrapper fit
	}
	h.Points = []*sdl.Point{pt}
	if r.p(0.4) {
		// an unrelated provider and an ordinary by-type point
		o := &sdl.Type{Name: id + "T3", Ifaces: []int{2}, Init: true}
		p.Types = append(p.Types, o)
		p.Instances = append(p.Instances, &sdl.Instance{ID: "c2", Type: o.Name})
		h.Points = append(h.Points, &sdl.Point{Field: "F1", Kind: sdl.KIface, Iface: 2, Sel: sdl.SelType})
	}
	if r.p(0.5) {
		// a by-type point that fits the component itself but not its wrapper
		h.Points = append(h.Points, &sdl.Point{Field: "F2", Kind: sdl.KPtr, Target: x.Name, Sel: sdl.SelType, Optional: r.p(0.6)})
	}
	hasF2 := false
	for _, pt := range h.Points {
		hasF2 = hasF2 || pt.Field == "F2"
	}
	if !hasF2 && r.p(0.5) {
		// a sibling of the substituted component and a collection of that pointer type: the
		// sibling fits, the wrapper does not - the collection holds exactly the sibling
		// (not next to a single-valued point of that type: ranking there would be between a
		// component whose published version does not fit and one that does, which no statement settles)
		p.Instances = append(p.Instances, &sdl.Instance{ID: fmt.Sprintf("c%d", len(p.Instances)), Type: x.Name, Alias: "sibling"})
		h.Points = append(h.Points, &sdl.Point{Field: "F3", Kind: sdl.KPtrs, Target: x.Name, Sel: sdl.SelType, Optional: r.p(0.5)})
	}
	if !hasF2 && r.p(0.4) {
		// a peer of the substituted component - same concrete type - asks for it by name (the
		// component's own point of that kind names the component itself: left empty)
		fp := &sdl.Point{Field: "FP", Kind: sdl.KIface, Iface: 0, Sel: sdl.SelName, Name: p.NameOf(xi), Optional: true}
		if r.p(0.4) {
			fp.Kind = sdl.KAny
		}
		x.Points = append(x.Points, fp)
		p.Instances = append(p.Instances, &sdl.Instance{ID: fmt.Sprintf("c%d", len(p.Instances)), Type: x.Name, Alias: "peer"})
	}
	at := pick(r, []string{sdl.CbAfter, sdl.CbAfter, sdl.CbBefore, sdl.CbBeforeInst})
	class := "plain"
	if at == sdl.CbBeforeInst {
		class = pick(r, []string{"inst", "smart"})
	}
	p.Procs = []*sdl.Proc{{ID: "pp0", Class: class, OrderClass: pick(r, orderClasses), Order: pick(r, []int{-3, 0, 5, 100}),
		Rules: []*sdl.Rule{{Target: "c0", At: at, Action: "substitute", Sub: "s0", SubType: w.Name}}}}
	return p
}

// hasSinglePtrPoint: some single-valued point asks for *T by type. A decorator of a T does not
// fit such a field, and how a candidate whose published version does not fit ranks against one
// that does is settled by no statement: decorators keep away from such types.
func hasSinglePtrPoint(p *sdl.Program, typeName string) bool {
	for _, t := range p.Types {
		for _, pt := range t.Points {
			if pt.Kind == sdl.KPtr && pt.Target == typeName {
				return true
			}
		}
	}
	return false
}
