package gen

import (
	"fmt"

	"verifsim/sdl"
)

// CycleCorpus returns the structured corpus of small dependency graphs: every digraph over
// n <= 2 (full: n <= 3) pointer-wired components, self-edges included, and every rotation of
// rings of length 2..5 for four edge kinds. Type names carry the placeholder prefix "PX".
func CycleCorpus(full bool) []*sdl.Program {
	var out []*sdl.Program
	maxN := 2
	if full {
		maxN = 3
	}
	for n := 1; n <= maxN; n++ {
		edges := n * n
		for mask := 0; mask < 1<<edges; mask++ {
			p := &sdl.Program{ID: "PX", Family: FamWire, NIfaces: 1, Note: fmt.Sprintf("digraph n=%d mask=%d", n, mask)}
			for i := 0; i < n; i++ {
				t := &sdl.Type{Name: fmt.Sprintf("PXT%d", i), Init: true}
				for j := 0; j < n; j++ {
					if mask&(1<<(i*n+j)) != 0 {
						t.Points = append(t.Points, &sdl.Point{Field: fmt.Sprintf("F%d", j), Kind: sdl.KPtr, Target: fmt.Sprintf("PXT%d", j), Sel: sdl.SelType})
					}
				}
				p.Types = append(p.Types, t)
				p.Instances = append(p.Instances, &sdl.Instance{ID: fmt.Sprintf("c%d", i), Type: t.Name})
			}
			out = append(out, p)
		}
	}
	// one deep ring: creation nests once per member before the first one is finished
	{
		const L = 160
		p := &sdl.Program{ID: "PX", Family: FamWire, NIfaces: 1, Note: fmt.Sprintf("ring L=%d edge=ptr (deep)", L)}
		for i := 0; i < L; i++ {
			t := &sdl.Type{Name: fmt.Sprintf("PXT%d", i), Init: i%16 == 0}
			t.Points = []*sdl.Point{{Field: "F0", Kind: sdl.KPtr, Target: fmt.Sprintf("PXT%d", (i+1)%L), Sel: sdl.SelType}}
			p.Types = append(p.Types, t)
			// names sort like the ring: the first member is created first and pulls in all others
			p.Instances = append(p.Instances, &sdl.Instance{ID: fmt.Sprintf("c%d", i), Type: t.Name, Alias: fmt.Sprintf("d%03d", i)})
		}
		out = append(out, p)
	}
	for L := 2; L <= 5; L++ {
		for rot := 0; rot < L; rot++ {
			for _, kind := range []string{sdl.KPtr, sdl.KIface, sdl.KPtrs, "name", "lookup", "lookup+ptr"} {
				p := &sdl.Program{ID: "PX", Family: FamWire, NIfaces: L, Note: fmt.Sprintf("ring L=%d rot=%d edge=%s", L, rot, kind)}
				for i := 0; i < L; i++ {
					j := (i + 1) % L
					t := &sdl.Type{Name: fmt.Sprintf("PXT%d", i), Init: true, Ifaces: []int{i}}
					pt := &sdl.Point{Field: "F0", Sel: sdl.SelType}
					alias := fmt.Sprintf("a%d", (i+rot)%L)
					aliasNext := fmt.Sprintf("a%d", (j+rot)%L)
					switch kind {
					case sdl.KPtr, sdl.KPtrs:
						pt.Kind, pt.Target = kind, fmt.Sprintf("PXT%d", j)
					case sdl.KIface:
						pt.Kind, pt.Iface = sdl.KIface, j
					case "name":
						pt.Kind, pt.Target, pt.Sel, pt.Name = sdl.KPtr, fmt.Sprintf("PXT%d", j), sdl.SelName, aliasNext
					}
					inst := &sdl.Instance{ID: fmt.Sprintf("c%d", i), Type: t.Name, Alias: alias}
					switch kind {
					case "lookup":
						// the ring is closed by by-name lookups from inside Init only
						inst.InitLookups = []string{fmt.Sprintf("c%d", j)}
					case "lookup+ptr":
						// one lookup edge, the others are wired
						if i == 0 {
							inst.InitLookups = []string{fmt.Sprintf("c%d", j)}
						} else {
							pt.Kind, pt.Target = sdl.KPtr, fmt.Sprintf("PXT%d", j)
							t.Points = []*sdl.Point{pt}
						}
					default:
						t.Points = []*sdl.Point{pt}
					}
					p.Types = append(p.Types, t)
					p.Instances = append(p.Instances, inst)
				}
				out = append(out, p)
			}
		}
	}
	return out
}

// SubstRingCorpus returns small rings of pointer-wired components (one candidate per point,
// so nothing but the name-sorted refresh decides where the ring is entered) in which one
// member is substituted around initialization, for every ring length 2..3, every substituted
// member, three wrap timings, and with the substituted member and its successor carrying
// names that differ in capitalisation only (either way round).
func SubstRingCorpus() []*sdl.Program {
	var out []*sdl.Program
	for L := 2; L <= 3; L++ {
		for k := 0; k < L; k++ {
			for _, plan := range []string{"after", "before", "early+after"} {
				for flip := 0; flip < 2; flip++ {
					p := &sdl.Program{ID: "PX", Family: FamSubst, NIfaces: 1, Note: fmt.Sprintf("subst ring L=%d member=%d plan=%s flip=%d", L, k, plan, flip)}
					for i := 0; i < L; i++ {
						j := (i + 1) % L
						t := &sdl.Type{Name: fmt.Sprintf("PXT%d", i), Init: true, Ifaces: []int{0}}
						t.Points = []*sdl.Point{{Field: "F0", Kind: sdl.KPtr, Target: fmt.Sprintf("PXT%d", j), Sel: sdl.SelType}}
						alias := fmt.Sprintf("bq%d", i)
						switch {
						case i == k:
							alias = []string{"aq", "Aq"}[flip]
						case i == (k+1)%L:
							alias = []string{"Aq", "aq"}[flip]
						}
						p.Types = append(p.Types, t)
						p.Instances = append(p.Instances, &sdl.Instance{ID: fmt.Sprintf("c%d", i), Type: t.Name, Alias: alias})
					}
					pr := &sdl.Proc{ID: "pp0", Class: "smart"}
					tgt := fmt.Sprintf("c%d", k)
					switch plan {
					case "after":
						pr.Rules = []*sdl.Rule{{Target: tgt, At: sdl.CbAfter, Action: "substitute", Sub: "s0"}}
					case "before":
						pr.Rules = []*sdl.Rule{{Target: tgt, At: sdl.CbBefore, Action: "substitute", Sub: "s0"}}
					case "early+after":
						pr.Rules = []*sdl.Rule{{Target: tgt, At: sdl.CbEarly, Action: "substitute", Sub: "s0"}, {Target: tgt, At: sdl.CbAfter, Action: "substitute", Sub: "s0b"}}
					}
					p.Procs = []*sdl.Proc{pr}
					out = append(out, p)
				}
			}
		}
	}
	// ... and a holder outside the ring that is created first and asks for two ring members, in
	// either declaration order: which member it creates first is the order of its points
	for L := 2; L <= 3; L++ {
		for k := 0; k < L; k++ {
			for _, plan := range []string{"after", "before"} {
				for flip := 0; flip < 2; flip++ {
					p := &sdl.Program{ID: "PX", Family: FamSubst, NIfaces: 1, Note: fmt.Sprintf("subst ring with holder L=%d member=%d plan=%s flip=%d", L, k, plan, flip)}
					for i := 0; i < L; i++ {
						t := &sdl.Type{Name: fmt.Sprintf("PXT%d", i), Init: true, Ifaces: []int{0}}
						t.Points = []*sdl.Point{{Field: "F0", Kind: sdl.KPtr, Target: fmt.Sprintf("PXT%d", (i+1)%L), Sel: sdl.SelType}}
						p.Types = append(p.Types, t)
						p.Instances = append(p.Instances, &sdl.Instance{ID: fmt.Sprintf("c%d", i), Type: t.Name, Alias: fmt.Sprintf("bq%d", i)})
					}
					a, b := k, (k+1)%L
					if flip == 1 {
						a, b = b, a
					}
					h := &sdl.Type{Name: "PXTH", Init: true, Points: []*sdl.Point{
						{Field: "F0", Kind: sdl.KPtr, Target: fmt.Sprintf("PXT%d", a), Sel: sdl.SelType},
						{Field: "F1", Kind: sdl.KPtr, Target: fmt.Sprintf("PXT%d", b), Sel: sdl.SelType}}}
					p.Types = append(p.Types, h)
					p.Instances = append(p.Instances, &sdl.Instance{ID: fmt.Sprintf("c%d", L), Type: h.Name, Alias: "aa"})
					at := sdl.CbAfter
					if plan == "before" {
						at = sdl.CbBefore
					}
					p.Procs = []*sdl.Proc{{ID: "pp0", Class: "smart", Rules: []*sdl.Rule{{Target: fmt.Sprintf("c%d", k), At: at, Action: "substitute", Sub: "s0"}}}}
					out = append(out, p)
				}
			}
		}
	}
	return out
}
