package simrt

import (
	"fmt"

	"github.com/go-kid/ioc/syslog"
)

// SilentLogger discards all output but keeps Panic/Panicf panicking, i.e. it behaves like
// the stock logger at its default level without the stderr I/O and the timestamps. (The
// registry rejects duplicate names through Panicf.) Fatal/Fatalf panic too instead of
// exiting the process, so that the harness can attribute them.
// P is the prefix the logger was obtained for (syslog.Pref), "" for the root logger.
type SilentLogger struct{ P string }

// FormatLogs makes the silent logger format what it is given at error level, as the stock
// logger does (the formatting calls the Error / Format methods of the logged values, on the
// goroutine that logs); the text is discarded. Set in racesim.
var FormatLogs bool

var _ syslog.Logger = SilentLogger{}

func (l SilentLogger) Level(lv syslog.Lv) syslog.Logger { return l }
func (SilentLogger) Pref(pref any) syslog.Logger        { return SilentLogger{P: fmt.Sprint(pref)} }
func (SilentLogger) Trace(v ...any)                     {}
func (SilentLogger) Tracef(format string, v ...any)     {}
func (SilentLogger) Debug(v ...any)                     {}
func (SilentLogger) Debugf(format string, v ...any)     {}
func (SilentLogger) Info(v ...any)                      {}
func (SilentLogger) Infof(format string, v ...any)      {}
func (SilentLogger) Warn(v ...any)                      {}
func (SilentLogger) Warnf(format string, v ...any)      {}
func (SilentLogger) Error(v ...any) {
	if FormatLogs {
		_ = fmt.Sprint(v...)
	}
}
func (SilentLogger) Errorf(format string, v ...any) {
	if FormatLogs {
		_ = fmt.Sprintf(format, v...)
	}
}
func (SilentLogger) Panic(v ...any)                 { panic(fmt.Sprint(v...)) }
func (SilentLogger) Panicf(format string, v ...any) { panic(fmt.Sprintf(format, v...)) }
func (SilentLogger) Fatal(v ...any)                 { panic("FATAL: " + fmt.Sprint(v...)) }
func (SilentLogger) Fatalf(format string, v ...any) { panic("FATAL: " + fmt.Sprintf(format, v...)) }
