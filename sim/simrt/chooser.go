// Package simrt is the run-time half of the simulator: the single source of choices
// (Chooser), the cooperative scheduler that runs inside a testing/synctest bubble, the
// per-run context with its event log and fault plan, and the handles through which the
// generated components call back into the simulator.
package simrt

import (
	"math/rand/v2"
)

// Pick is one recorded decision: at Site, one of N alternatives, K was taken.
type Pick struct {
	Site string `json:"s"`
	N    int    `json:"n"`
	K    int    `json:"k"`
}

// Chooser is the only source of nondeterminism of a simulated run. It is backed either
// by a PRNG seeded from the run seed or by a recorded list of picks (replay, shrinking).
// In replay mode a recorded pick is taken modulo the number of alternatives actually on
// offer and missing picks are 0, so every pick list is a valid run; the all-zero list is
// "canonical order everywhere, first parked task first, no optional behaviour".
type Chooser struct {
	rng    *rand.Rand
	replay bool
	picks  []int
	pos    int
	Trace  []Pick
	// Draws counts decisions with more than one alternative.
	Draws int
	// keepSites: record site names in the trace (off in bulk runs to save allocations).
	KeepSites bool
}

func NewSeeded(seed uint64) *Chooser {
	return &Chooser{rng: rand.New(rand.NewPCG(seed, seed^0x9e3779b97f4a7c15))}
}

func NewReplay(picks []int) *Chooser {
	return &Chooser{replay: true, picks: picks}
}

// Choose returns 0 <= k < n. n <= 1 never draws and is not recorded.
func (c *Chooser) Choose(site string, n int) int {
	if n <= 1 {
		return 0
	}
	var k int
	if c.replay {
		if c.pos < len(c.picks) {
			k = c.picks[c.pos] % n
			if k < 0 {
				k = 0
			}
		}
		c.pos++
	} else {
		k = c.rng.IntN(n)
	}
	c.Draws++
	if c.KeepSites {
		c.Trace = append(c.Trace, Pick{Site: site, N: n, K: k})
	} else {
		c.Trace = append(c.Trace, Pick{N: n, K: k})
	}
	return k
}

// Bool draws a boolean; false is the canonical (shrunk) value.
func (c *Chooser) Bool(site string) bool { return c.Choose(site, 2) == 1 }

// Perm draws a permutation of 0..n-1 as a Fisher–Yates pick sequence; all-zero picks give
// the identity.
func (c *Chooser) Perm(site string, n int) []int {
	p := make([]int, n)
	for i := range p {
		p[i] = i
	}
	for i := 0; i < n-1; i++ {
		j := i + c.Choose(site, n-i)
		p[i], p[j] = p[j], p[i]
	}
	return p
}

// Picks returns the K values of the trace (the replayable form).
func (c *Chooser) Picks() []int {
	out := make([]int, len(c.Trace))
	for i, p := range c.Trace {
		out[i] = p.K
	}
	return out
}
