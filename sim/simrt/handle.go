package simrt

import (
	"github.com/go-kid/ioc/syslog"
	"runtime/debug"
	"strings"
	"sync/atomic"
)

// Handle is the per-instance link between a generated component and the simulator. It is
// stored in an exported, untagged field of the component (which therefore doubles as a
// frame sentinel: the container must never write it).
type Handle struct {
	ID    string
	Alias string
	Qual  string
	Kind  string
	// KindCalls: how often the container invoked SimKind() on the component
	KindCalls int32
	Ord       int
	probe     int
	// simulated loaders: LoaderHook runs inside LoadConfig (after the fault check); Data2, if
	// set, is what the loader supplies once the application has switched it over (Data2Active).
	LoaderHook  func()
	Data2       []byte
	Data2Active bool
	// SeenComponents / SeenScanners: what a processor's component-factory hook found registered.
	SeenComponents, SeenScanners int
	// OrdFinal, if set, replaces Ord once the instance's initialization callback has run.
	OrdFinal *int
	C        *Ctx
	// LookupFn, if set, performs this instance's by-name lookups from inside its
	// initialization callback (installed by the engine).
	LookupFn func(h *Handle) error
}

// lookups performs the instance's by-name lookups; a lookup error is returned from the
// initialization callback (the component cannot initialise without what it looked up).
func (h *Handle) lookups() error {
	if h.LookupFn != nil && !h.C.Parallel {
		return h.LookupFn(h)
	}
	return nil
}

func (h *Handle) OnInit(self any) error {
	if err := h.C.Callback("init", h.ID, self); err != nil {
		return err
	}
	if h.OrdFinal != nil {
		h.Ord = *h.OrdFinal
	}
	return h.lookups()
}

func (h *Handle) OnAPS(self any) error {
	if err := h.C.Callback("aps", h.ID, self); err != nil {
		return err
	}
	if h.OrdFinal != nil {
		h.Ord = *h.OrdFinal
	}
	return h.lookups()
}
func (h *Handle) OnRun(self any) error { return h.C.Callback("run", h.ID, self) }

// OnFactoryHook is the PostProcessComponentFactory callback of a generated component.
func (h *Handle) OnFactoryHook() error { return h.C.Callback("factorypp", h.ID, nil) }

// OnProc is the callback of a generated component that is itself an observing
// post-processor: it logs (and may fail through the fault plan) and returns the component.
func (h *Handle) OnProc(kind string, component any, name string) (any, error) {
	if err := h.C.Callback(kind, h.ID+"@"+name, component); err != nil {
		return nil, err
	}
	return component, nil
}

// OnClose logs entry, parks until the scheduler releases this closer, then returns the
// (possibly injected) result.
func (h *Handle) OnClose(self any) error {
	h.C.Log("close-enter", h.ID, "")
	// a closer is slow (parks inside Close until released) or fast (returns at once);
	// the goroutine calling it has been released alone, so drawing here is serial
	if h.C.Parallel || h.C.Ch.Choose("closer-fast", 3) != 1 {
		h.C.Yield("close:" + h.ID)
	}
	err := h.C.Callback("close", h.ID, self)
	h.C.Log("close-exit", h.ID, "")
	if err != nil && h.C.Parallel {
		if h.C.StockLog {
			// the closers of an application report through one prefix logger of the library, from
			// inside the parallel shutdown
			syslog.Pref("Closers").Errorf("closer %s failed", h.ID)
		}
		// racesim: the error is an object of the application's own; whoever formats it reads it
		err = &ProbeErr{H: h, Msg: err.Error()}
	}
	return err
}

// ProbeErr is the error of a failing closer in racesim. Formatting it reads a word of the
// closer's own state; the application writes that word once App.Close has returned (Touch).
// If the container still formats the error on a goroutine that App.Close did not wait for,
// the race detector sees the two accesses unordered.
type ProbeErr struct {
	H   *Handle
	Msg string
}

func (e *ProbeErr) Error() string {
	if e.H.probe != 0 {
		return e.Msg + " (closed)"
	}
	return e.Msg
}

// Touch is what the application does with a closer after App.Close has returned.
func (h *Handle) Touch() { h.probe++ }

// ShortStack returns the go-kid/ioc frames of the current stack.
func ShortStack() string { return shortStack() }

func shortStack() string {
	s := string(debug.Stack())
	lines := strings.Split(s, "\n")
	var keep []string
	for _, l := range lines {
		if strings.Contains(l, "go-kid/ioc") || strings.Contains(l, "/repo/") || strings.Contains(l, "panic") {
			keep = append(keep, strings.TrimSpace(l))
		}
		if len(keep) > 24 {
			break
		}
	}
	return strings.Join(keep, " | ")
}

// Zero-size components carry no handle; they reach the simulator through the current run.
var (
	// Cur is the context of the run in progress (one run at a time per worker process).
	Cur *Ctx
	// ZeroIDs maps the type name of a zero-size component to its instance id.
	ZeroIDs map[string]string
)

func zeroHandle(typeName string) *Handle {
	return &Handle{ID: ZeroIDs[typeName], C: Cur}
}

// ZeroRun / ZeroClose are the Run / Close bodies of zero-size runners and closers.
func ZeroRun(typeName string) error   { return zeroHandle(typeName).OnRun(nil) }
func ZeroClose(typeName string) error { return zeroHandle(typeName).OnClose(nil) }

// Bases of function-local component types ("Local" types cannot declare methods of their own).
type LocalBase struct{ Sim *Handle }

func (b *LocalBase) Naming() string { return b.Sim.Alias }

// LocalCloser makes a function-local type a closer.
type LocalCloser struct{ LocalBase }

func (c *LocalCloser) Close() error { return c.Sim.OnClose(nil) }

// LocalRunner makes a function-local type an application runner.
type LocalRunner struct{ LocalBase }

func (c *LocalRunner) Run() error { return c.Sim.OnRun(nil) }

// OrdMix supplies Order() to component types that embed it (the engine fills in the handle).
type OrdMix struct{ OrdH *Handle }

func (o OrdMix) Order() int { return o.OrdH.Ord }

// LocalPrimary makes a function-local type a Primary component.
type LocalPrimary struct{ LocalBase }

func (c *LocalPrimary) Primary() {}

// OnKind is SimKind(): the value a func-tagged point compares with its `returns` argument.
func (h *Handle) OnKind() string {
	atomic.AddInt32(&h.KindCalls, 1)
	return h.Kind
}
