package simrt

import (
	"fmt"
	"github.com/go-kid/ioc/component_definition"
	"github.com/go-kid/ioc/container"
	"github.com/go-kid/ioc/container/processors"
	"time"
)

// CfgAB is the struct type of "prefixStruct" configuration fields.
type CfgAB struct {
	A int    `yaml:"a"`
	B string `yaml:"b"`
}

// CfgABV is the struct type of "prefixStructV" fields: validated through its own field tags
// when the configuration field carries a bare `validate` argument.
type CfgABV struct {
	A int    `yaml:"a" validate:"min=3"`
	B string `yaml:"b"`
}

// SimLoader is a simulated configuration source.
type SimLoader struct {
	H    *Handle
	Data []byte
}

func (l *SimLoader) LoadConfig() ([]byte, error) {
	if err := l.H.C.Callback("load", l.H.ID, nil); err != nil {
		return nil, err
	}
	if l.H.LoaderHook != nil {
		l.H.LoaderHook()
	}
	if l.H.Data2 != nil && l.H.Data2Active {
		return l.H.Data2, nil
	}
	return l.Data, nil
}

// ValLoaderO / ValLoaderP are ordered loaders that are handed over BY VALUE; the slice field
// makes their type unhashable.
type ValLoaderO struct {
	H    *Handle
	Data []byte
}

func (l ValLoaderO) LoadConfig() ([]byte, error) {
	if err := l.H.C.Callback("load", l.H.ID, nil); err != nil {
		return nil, err
	}
	return l.Data, nil
}
func (l ValLoaderO) Order() int { return l.H.Ord }

type ValLoaderP struct{ ValLoaderO }

func (l ValLoaderP) Priority() {}

type SimLoaderO struct {
	SimLoader
	hOrdM
}
type SimLoaderP struct {
	SimLoader
	hOrdM
	prioM
}

// SimLoaderM carries the Priority marker only (no Order): an unordered participant.
type SimLoaderM struct {
	SimLoader
	prioM
}

func NewSimLoader(orderClass string, order int, core SimLoader) interface {
	LoadConfig() ([]byte, error)
} {
	switch orderClass {
	case "":
		return &core
	case "ordered":
		core.H.Ord = order
		return &SimLoaderO{core, hOrdM{core.H}}
	case "priority":
		core.H.Ord = order
		return &SimLoaderP{core, hOrdM{core.H}, prioM{}}
	case "marker":
		return &SimLoaderM{core, prioM{}}
	}
	panic("NewSimLoader: " + orderClass)
}

// TagRecord is what a custom tag scanner's processor received for one field.
type TagRecord struct {
	Comp   string     `json:"comp"`
	Field  string     `json:"field"`
	Holder string     `json:"holder"`
	Val    string     `json:"val"`
	Args   [][]string `json:"args,omitempty"`
}

// TagScanner is a user-supplied tag processor: a definition-registry post-processor that
// scans for its tag (through the stock DefaultTagScanDefinitionRegistryPostProcessor) and an
// instantiation-aware post-processor that records the properties carrying its tag.
type TagScanner struct {
	processors.DefaultTagScanDefinitionRegistryPostProcessor
	processors.DefaultInstantiationAwareComponentPostProcessor
	H       *Handle
	Records []TagRecord
	// Inventory: after scanning a component the scanner reads all properties found so far.
	Inventory bool
	Seen      int
	// Narrow: answer with a fresh list of the properties that carry the scanner's tag
	Narrow bool
}

func NewTagScanner(h *Handle, tag, nodeType string, handler bool) *TagScanner {
	if nodeType == "" {
		nodeType = "Custom_" + tag
	}
	var eh func(meta *component_definition.Meta, field *component_definition.Field) (string, string, bool)
	if handler {
		// the handler recognises fields by the struct tag `<tag>h`
		eh = func(meta *component_definition.Meta, field *component_definition.Field) (string, string, bool) {
			v, ok := field.StructField.Tag.Lookup(tag + "h")
			return "", v, ok
		}
	}
	return &TagScanner{
		DefaultTagScanDefinitionRegistryPostProcessor: processors.DefaultTagScanDefinitionRegistryPostProcessor{
			NodeType:       component_definition.PropertyType(nodeType),
			Tag:            tag,
			ExtractHandler: eh,
		},
		H: h,
	}
}

func (s *TagScanner) Naming() string { return s.H.Alias }

func (s *TagScanner) PostProcessDefinitionRegistry(registry container.DefinitionRegistry, component any, componentName string) error {
	// custom scanners run inside the parallel scanning phase: park, then maybe fail
	s.H.C.Yield("scan:" + s.H.ID + ":" + componentName)
	if err := s.H.C.Callback("scan", s.H.ID+"@"+componentName, nil); err != nil {
		return err
	}
	err := s.DefaultTagScanDefinitionRegistryPostProcessor.PostProcessDefinitionRegistry(registry, component, componentName)
	if err == nil && s.Inventory && !s.H.C.Parallel {
		// a scanner that also takes stock of what the definition holds so far (pure observation)
		if m := registry.GetMetaByName(componentName); m != nil {
			s.Seen += len(m.GetAllProperties())
		}
	}
	return err
}

func (s *TagScanner) PostProcessAfterInstantiation(component any, componentName string) (bool, error) {
	return true, nil
}

func (s *TagScanner) PostProcessProperties(properties []*component_definition.Property, component any, componentName string) ([]*component_definition.Property, error) {
	for _, p := range properties {
		if p.Tag != s.Tag {
			continue
		}
		rec := TagRecord{Comp: componentName, Field: p.StructField.Name, Holder: p.Holder.String(), Val: p.TagVal}
		p.Args().ForEach(func(argType component_definition.ArgType, args []string) {
			rec.Args = append(rec.Args, append([]string{string(argType)}, args...))
		})
		s.Records = append(s.Records, rec)
	}
	if s.Narrow {
		mine := []*component_definition.Property{}
		for _, p := range properties {
			if p.Tag == s.Tag {
				mine = append(mine, p)
			}
		}
		return mine, nil
	}
	return nil, nil
}

// Contributor is a definition-registry post-processor that contributes definitions of
// components which were never registered with the container (DefinitionRegistry.RegisterMeta).
type Contributor struct {
	processors.DefaultTagScanDefinitionRegistryPostProcessor
	H    *Handle
	Objs []any
}

func (c *Contributor) Naming() string { return c.H.Alias }

func (c *Contributor) PostProcessDefinitionRegistry(registry container.DefinitionRegistry, component any, componentName string) error {
	if componentName != c.H.Alias {
		return nil
	}
	// exactly one invocation (the one for the contributor itself) registers the definitions
	for _, o := range c.Objs {
		registry.RegisterMeta(component_definition.NewMeta(o))
	}
	return nil
}

// Mark is the struct type of custom-tagged anonymous fields (a tagged anonymous struct field
// is a field to hand to the tag's scanner, not an embedded carrier).
type Mark struct{ M int }

// Dur lets generated code declare time.Duration fields without importing time.
type Dur = time.Duration

// CfgPV is a configuration holder that names its own prefix (definition.ConfigurationProperties)
// through a VALUE-receiver method; components declare it as an untagged (nil) pointer field.
type CfgPV struct {
	A int    `yaml:"a"`
	B string `yaml:"b"`
}

func (CfgPV) Prefix() string { return "sim.sub" }

// CfgPD is a configuration holder whose prefix is a matter of the instance: the application
// creates it with the section it belongs to (pointer-receiver Prefix()).
type CfgPD struct {
	Section string
	A       int    `yaml:"a"`
	B       string `yaml:"b"`
}

func (c *CfgPD) Prefix() string { return c.Section }

// CfgNest is a configuration struct whose constraints live in a nested struct reached through
// a pointer: validated (bare `validate` argument) only as far as the pointer is set.
type CfgNest struct {
	Inner *CfgInner `yaml:"inner"`
	B     string    `yaml:"b"`
}

type CfgInner struct {
	A int `yaml:"a" validate:"min=3"`
}

// String renders the value for comparison with the reference model.
func (c CfgNest) String() string {
	if c.Inner == nil {
		return "{nil " + c.B + "}"
	}
	return fmt.Sprintf("{%d %s}", c.Inner.A, c.B)
}

// CfgReq is a configuration struct with a by-value struct member that is required: validated
// (bare `validate` argument), it fails exactly when that member is all zero.
type CfgReq struct {
	Inner CfgPlain `yaml:"inner" validate:"required"`
	B     string   `yaml:"b"`
}

type CfgPlain struct {
	A int `yaml:"a"`
}

func (c CfgReq) String() string { return fmt.Sprintf("{%d %s}", c.Inner.A, c.B) }
