package simrt

import (
	"errors"
	"fmt"
	"sort"
	"strconv"
	"sync"
	"testing/synctest"
	"time"
)

// Event is one entry of the run's event log. Seq is the global event sequence number.
type Event struct {
	Seq    int    `json:"q"`
	Kind   string `json:"k"`
	Subj   string `json:"s"`
	Detail string `json:"d,omitempty"`
}

func (e Event) String() string {
	if e.Detail == "" {
		return fmt.Sprintf("%d:%s(%s)", e.Seq, e.Kind, e.Subj)
	}
	return fmt.Sprintf("%d:%s(%s,%s)", e.Seq, e.Kind, e.Subj, e.Detail)
}

type parked struct {
	site string
	ch   chan struct{}
}

// Ctx is the context of one simulated run: chooser, scheduler state, event log, fault
// plan. Exactly one Ctx is live per worker process at a time.
type Ctx struct {
	Ch *Chooser

	mu     sync.Mutex
	parked []*parked
	events []Event
	seq    int

	Steps    int
	Budget   int
	Parallel bool // racesim: release waves, no logging, no synchronisation in callbacks
	NoSched  bool // Yield is a no-op (plain run outside a bubble)
	ErrShape int  // shape of the injected errors in this run (0 .. ErrShapes-1)

	// Fault plan: keys "kind:subj#n" (n-th occurrence, 0-based) or "kind:subj#*" (always).
	Armed map[string]bool
	fired map[string]int
	occ   map[string]int
	sites []string

	// EventBudget bounds the number of logged events of one run; exceeding it aborts the run
	// (unbounded recursion or looping inside the container shows up as event growth).
	EventBudget int
	OverBudget  bool
	// Quiet: the harness is wrapping up an over-budget run; logging no longer panics.
	Quiet bool

	// DupSite is set if two tasks were parked under the same site key (a harness bug: the
	// release order would not be a function of the picks).
	DupSite string
	// MaxParked is the largest number of simultaneously parked tasks (reach measure).
	MaxParked int
	// Waves counts scheduler decisions with more than one parked task.
	Contended int

	// Hook lets the engine observe callbacks synchronously (snapshots at before-init etc).
	Hook func(kind, subj string, obj any)

	// TimeMayPass: from now on the scheduler may, as a pick, let (simulated) time pass before
	// it releases the next task: everything parked stays parked for that long. The bubble's
	// clock only moves while every goroutine is blocked, so a timer inside the container fires
	// exactly when the simulator decides that the parked tasks are that slow.
	TimeMayPass bool
	// StockLog: the library's own logger is installed (racesim, programs of odd index): failing
	// closers report through a prefix logger they share
	StockLog bool
	// Slept is the simulated time that passed this way.
	Slept time.Duration
}

func NewCtx(ch *Chooser) *Ctx {
	return &Ctx{Ch: ch, Budget: 200000, EventBudget: 400000, Armed: map[string]bool{}, fired: map[string]int{}, occ: map[string]int{}}
}

// ErrInjected is the error returned by an armed fault site.
var ErrInjected = errors.New("verif: injected fault")

// Injected errors come in several legal shapes (a failure is a non-nil error, whatever its
// dynamic type looks like); the shape is fixed per run (Ctx.ErrShape).
type causerErr struct{ msg string }

func (e *causerErr) Error() string { return e.msg }

// Cause makes the error a github.com/pkg/errors "causer" without an underlying cause.
func (e *causerErr) Cause() error { return nil }

type unwrapNilErr struct{ msg string }

func (e unwrapNilErr) Error() string { return e.msg }
func (e unwrapNilErr) Unwrap() error { return nil }

// temporaryErr looks like a net.Error: it is a failure like any other.
type temporaryErr struct{ msg string }

func (e temporaryErr) Error() string   { return e.msg }
func (e temporaryErr) Temporary() bool { return true }
func (e temporaryErr) Timeout() bool   { return true }

// ErrShapes is the number of shapes.
const ErrShapes = 5

func (c *Ctx) injected() error {
	switch c.ErrShape {
	case 1:
		return &causerErr{"verif: injected fault (causer without cause)"}
	case 2:
		return unwrapNilErr{"verif: injected fault (wrapper without wrapped error)"}
	case 3:
		return fmt.Errorf("verif: injected fault (wrapped): %w", ErrInjected)
	case 4:
		return temporaryErr{"verif: injected fault (reports itself as temporary / timed out)"}
	}
	return ErrInjected
}

// ErrBudget is the panic value that aborts a run whose event log exceeded its budget.
var ErrBudget = errors.New("verif: event budget of the run exceeded (non-termination)")

// Log appends an event (serial mode only).
func (c *Ctx) Log(kind, subj, detail string) int {
	if c == nil || c.Parallel {
		return -1
	}
	c.mu.Lock()
	c.seq++
	s := c.seq
	c.events = append(c.events, Event{Seq: s, Kind: kind, Subj: subj, Detail: detail})
	over := c.EventBudget > 0 && s > c.EventBudget && !c.Quiet
	if over {
		c.OverBudget = true
	}
	c.mu.Unlock()
	if over {
		// every further event of a run that exceeded its budget aborts the current call
		// chain again (a recovered first panic must not let the runaway continue)
		panic(ErrBudget)
	}
	return s
}

func (c *Ctx) Events() []Event {
	c.mu.Lock()
	defer c.mu.Unlock()
	out := make([]Event, len(c.events))
	copy(out, c.events)
	return out
}

// Seq returns the current global event sequence number.
func (c *Ctx) Seq() int {
	c.mu.Lock()
	defer c.mu.Unlock()
	return c.seq
}

// Callback is invoked by every simulated environment callback that can fail. It logs the
// event, registers the fault site and returns ErrInjected when the site is armed.
func (c *Ctx) Callback(kind, subj string, obj any) error {
	if c == nil {
		return nil
	}
	if c.Parallel {
		// immutable lookups only
		if c.Armed[kind+":"+subj+"#*"] {
			return c.injected()
		}
		return nil
	}
	c.mu.Lock()
	base := kind + ":" + subj
	n := c.occ[base]
	c.occ[base] = n + 1
	key := base + "#" + strconv.Itoa(n)
	c.sites = append(c.sites, key)
	armed := c.Armed[key] || c.Armed[base+"#*"]
	c.seq++
	det := ""
	if armed {
		det = "FAULT"
		c.fired[key]++
	}
	c.events = append(c.events, Event{Seq: c.seq, Kind: kind, Subj: subj, Detail: det})
	hook := c.Hook
	c.mu.Unlock()
	if hook != nil {
		hook(kind, subj, obj)
	}
	if armed {
		return c.injected()
	}
	return nil
}

// Sites returns the callback sites seen so far, in order.
func (c *Ctx) Sites() []string {
	c.mu.Lock()
	defer c.mu.Unlock()
	return append([]string(nil), c.sites...)
}

// Fired returns how many armed sites actually fired.
func (c *Ctx) Fired() map[string]int {
	c.mu.Lock()
	defer c.mu.Unlock()
	out := map[string]int{}
	for k, v := range c.fired {
		out[k] = v
	}
	return out
}

// Yield parks the calling goroutine until the scheduler releases it.
func (c *Ctx) Yield(site string) {
	if c == nil || c.NoSched {
		return
	}
	p := &parked{site: site, ch: make(chan struct{})}
	c.mu.Lock()
	c.parked = append(c.parked, p)
	c.mu.Unlock()
	<-p.ch
}

// ParkedSites returns the sorted site keys of the currently parked tasks. Only meaningful
// at quiescence.
func (c *Ctx) ParkedSites() []string {
	c.mu.Lock()
	defer c.mu.Unlock()
	out := make([]string, len(c.parked))
	for i, p := range c.parked {
		out[i] = p.site
	}
	sort.Strings(out)
	return out
}

// ReleaseOne releases one parked task chosen by the Chooser; it reports false if nothing
// is parked. Only call at quiescence (after synctest.Wait).
func (c *Ctx) ReleaseOne() bool {
	c.mu.Lock()
	ps := c.parked
	if len(ps) == 0 {
		c.mu.Unlock()
		return false
	}
	sort.SliceStable(ps, func(i, j int) bool { return ps[i].site < ps[j].site })
	for i := 1; i < len(ps); i++ {
		if ps[i].site == ps[i-1].site {
			c.DupSite = ps[i].site
		}
	}
	if len(ps) > c.MaxParked {
		c.MaxParked = len(ps)
	}
	if len(ps) > 1 {
		c.Contended++
	}
	c.mu.Unlock()
	k := c.Ch.Choose("sched", len(ps))
	c.mu.Lock()
	sel := ps[k]
	rest := make([]*parked, 0, len(ps)-1)
	rest = append(rest, ps[:k]...)
	rest = append(rest, ps[k+1:]...)
	// tasks that parked after ps was read cannot exist: we are at quiescence.
	c.parked = rest
	c.mu.Unlock()
	close(sel.ch)
	return true
}

// ReleaseWave releases a Chooser-selected non-empty subset of the parked tasks at once
// (parallel mode, racesim).
func (c *Ctx) ReleaseWave() bool {
	c.mu.Lock()
	ps := c.parked
	if len(ps) == 0 {
		c.mu.Unlock()
		return false
	}
	sort.SliceStable(ps, func(i, j int) bool { return ps[i].site < ps[j].site })
	if len(ps) > c.MaxParked {
		c.MaxParked = len(ps)
	}
	c.mu.Unlock()
	// wave size: all (most common, maximises real overlap), or a random prefix of a permutation
	var sel []*parked
	var rest []*parked
	if c.Ch.Choose("wave-all", 4) != 1 {
		sel = ps
	} else {
		perm := c.Ch.Perm("wave-perm", len(ps))
		n := 1 + c.Ch.Choose("wave-n", len(ps))
		for i, pi := range perm {
			if i < n {
				sel = append(sel, ps[pi])
			} else {
				rest = append(rest, ps[pi])
			}
		}
	}
	c.mu.Lock()
	c.parked = rest
	c.mu.Unlock()
	for _, p := range sel {
		close(p.ch)
	}
	return true
}

// DriveResult is what the scheduler observed.
type DriveResult struct {
	Finished  bool   // main task returned
	Panic     string // main task panicked (recovered value)
	PanicStk  string
	Stuck     bool // quiescent, main not finished, nothing parked
	OverSteps bool // step budget exceeded
}

// Drive runs main as the bubble's main task and schedules every parked task until main has
// returned. It must be called on the root goroutine of a synctest bubble. atQuiescence, if
// not nil, is called at every quiescent point before a release decision (invariant hook).
func (c *Ctx) Drive(main func(), atQuiescence func(mainDone bool)) DriveResult {
	var res DriveResult
	done := make(chan struct{})
	go func() {
		defer close(done)
		defer func() {
			if r := recover(); r != nil {
				res.Panic = fmt.Sprint(r)
				res.PanicStk = shortStack()
			}
		}()
		main()
	}()
	for {
		synctest.Wait()
		fin := false
		select {
		case <-done:
			fin = true
		default:
		}
		if atQuiescence != nil {
			atQuiescence(fin)
		}
		if fin {
			res.Finished = true
			// release leftovers so that no goroutine stays blocked in the bubble
			for c.releaseAll() {
				synctest.Wait()
			}
			return res
		}
		c.Steps++
		if c.Steps > c.Budget {
			res.OverSteps = true
			for c.releaseAll() {
				synctest.Wait()
			}
			return res
		}
		if c.TimeMayPass && !c.Parallel && len(c.ParkedSites()) != 0 && c.Ch.Choose("time-passes", 5) == 1 {
			d := time.Duration(1+c.Ch.Choose("how-long", 3)) * 4 * time.Second
			c.Slept += d
			time.Sleep(d) // simulated: returns once the bubble's clock has moved that far
			continue      // the container may have reacted: look at the new quiescent point first
		}
		var ok bool
		if c.Parallel {
			ok = c.ReleaseWave()
		} else {
			ok = c.ReleaseOne()
		}
		if !ok {
			res.Stuck = true
			return res
		}
	}
}

func (c *Ctx) releaseAll() bool {
	c.mu.Lock()
	ps := c.parked
	c.parked = nil
	c.mu.Unlock()
	for _, p := range ps {
		close(p.ch)
	}
	return len(ps) != 0
}
