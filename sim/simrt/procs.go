package simrt

import (
	"github.com/go-kid/ioc/component_definition"
	"github.com/go-kid/ioc/container"
)

// ProcCore is the behaviour shared by the nine static user post-processor types. A rule
// resolver installed by the engine decides, per (processor, callback, component name),
// whether the callback returns the component unchanged, a substitute, or (through the
// fault plan) an error.
type ProcCore struct {
	H *Handle
	// Resolve returns a substitute for (cb, component name) or nil.
	Resolve func(proc, cb, name string, cur any) any
	// PropsOK: PostProcessAfterInstantiation returns true.
	PropsOK bool
	// PropsRet: "" | "empty" | "same" - what PostProcessProperties hands back.
	PropsRet string

	// Act performs what else the processor does inside (cb, component name): look another
	// component up through the container. Its error is the callback's error.
	Act func(proc, cb, name string) error
}

func (p *ProcCore) act(kind, name string) error {
	if p.Act != nil && !p.H.C.Parallel {
		return p.Act(p.H.ID, kind, name)
	}
	return nil
}

func (p *ProcCore) Naming() string { return p.H.Alias }

// PostProcessComponentFactory: every user post-processor is also a component-factory
// post-processor. A processor may settle its order in this hook (Handle.OrdFinal).
func (p *ProcCore) PostProcessComponentFactory(factory container.Factory) error {
	if err := p.H.C.Callback("factorypp", p.H.ID, nil); err != nil {
		return err
	}
	if p.H.OrdFinal != nil {
		p.H.Ord = *p.H.OrdFinal
	}
	// the hook takes stock of what is registered (all of it is, whatever the order in which
	// the registry listed the components)
	p.H.SeenComponents = len(factory.GetRegisteredComponents())
	p.H.SeenScanners = len(factory.GetDefinitionRegistryPostProcessors())
	return nil
}

func (p *ProcCore) cb(kind, name string, cur any) (any, error) {
	if err := p.H.C.Callback(kind, p.H.ID+"@"+name, cur); err != nil {
		return nil, err
	}
	if err := p.act(kind, name); err != nil {
		return nil, err
	}
	if p.Resolve != nil {
		if s := p.Resolve(p.H.ID, kind, name, cur); s != nil {
			p.H.C.Log("subst", name, kind+"@"+p.H.ID)
			return s, nil
		}
	}
	return cur, nil
}

func (p *ProcCore) PostProcessBeforeInitialization(component any, componentName string) (any, error) {
	return p.cb("before", componentName, component)
}
func (p *ProcCore) PostProcessAfterInitialization(component any, componentName string) (any, error) {
	return p.cb("after", componentName, component)
}

// InstCore adds the instantiation-aware callbacks.
type InstCore struct{ ProcCore }

func (p *InstCore) PostProcessBeforeInstantiation(m *component_definition.Meta, componentName string) (any, error) {
	if err := p.H.C.Callback("beforeInst", p.H.ID+"@"+componentName, nil); err != nil {
		return nil, err
	}
	if err := p.act("beforeInst", componentName); err != nil {
		return nil, err
	}
	if p.Resolve != nil {
		if s := p.Resolve(p.H.ID, "beforeInst", componentName, m.Raw); s != nil {
			p.H.C.Log("subst", componentName, "beforeInst@"+p.H.ID)
			return s, nil
		}
	}
	return nil, nil
}
func (p *InstCore) PostProcessAfterInstantiation(component any, componentName string) (bool, error) {
	if err := p.H.C.Callback("afterInst", p.H.ID+"@"+componentName, component); err != nil {
		return false, err
	}
	if err := p.act("afterInst", componentName); err != nil {
		return false, err
	}
	return p.PropsOK, nil
}
func (p *InstCore) PostProcessProperties(properties []*component_definition.Property, component any, componentName string) ([]*component_definition.Property, error) {
	if err := p.H.C.Callback("props", p.H.ID+"@"+componentName, component); err != nil {
		return nil, err
	}
	if err := p.act("props", componentName); err != nil {
		return nil, err
	}
	switch p.PropsRet {
	case "inplace":
		// the xs[:0] idiom: keep every second property, compacting the list it was handed
		out := properties[:0]
		for i, x := range properties {
			if i%2 == 1 {
				out = append(out, x)
			}
		}
		return out, nil
	case "empty":
		return []*component_definition.Property{}, nil
	case "same":
		return properties, nil
	}
	return nil, nil
}

// SmartCore adds GetEarlyBeanReference.
type SmartCore struct{ InstCore }

func (p *SmartCore) GetEarlyBeanReference(component any, componentName string) (any, error) {
	return p.cb("early", componentName, component)
}

type ordM struct{ O int }

func (o *ordM) Order() int { return o.O }

// hOrdM answers with the handle's current order (a processor may settle it late).
type hOrdM struct{ H *Handle }

func (o *hOrdM) Order() int { return o.H.Ord }

type prioM struct{}

func (p *prioM) Priority() {}

// The nine static types: {plain, inst, smart} x {unordered, Ordered, PriorityOrdered}.
type (
	PlainProc  struct{ ProcCore }
	PlainProcO struct {
		ProcCore
		hOrdM
	}
	PlainProcP struct {
		ProcCore
		hOrdM
		prioM
	}
	InstProc  struct{ InstCore }
	InstProcO struct {
		InstCore
		hOrdM
	}
	InstProcP struct {
		InstCore
		hOrdM
		prioM
	}
	SmartProc  struct{ SmartCore }
	SmartProcO struct {
		SmartCore
		hOrdM
	}
	SmartProcP struct {
		SmartCore
		hOrdM
		prioM
	}
)

type lazyM struct{}

func (l *lazyM) LazyInit() {}

// Lazy variants (the container's own processors are LazyInit; user processors may be either).
type (
	PlainProcL struct {
		PlainProc
		lazyM
	}
	PlainProcOL struct {
		PlainProcO
		lazyM
	}
	PlainProcPL struct {
		PlainProcP
		lazyM
	}
	InstProcL struct {
		InstProc
		lazyM
	}
	InstProcOL struct {
		InstProcO
		lazyM
	}
	InstProcPL struct {
		InstProcP
		lazyM
	}
	SmartProcL struct {
		SmartProc
		lazyM
	}
	SmartProcOL struct {
		SmartProcO
		lazyM
	}
	SmartProcPL struct {
		SmartProcP
		lazyM
	}
)

// NewLazyProc is NewProc for a processor that is itself marked LazyInit.
func NewLazyProc(class, orderClass string, order int, core ProcCore) any {
	switch x := NewProc(class, orderClass, order, core).(type) {
	case *PlainProc:
		return &PlainProcL{*x, lazyM{}}
	case *PlainProcO:
		return &PlainProcOL{*x, lazyM{}}
	case *PlainProcP:
		return &PlainProcPL{*x, lazyM{}}
	case *InstProc:
		return &InstProcL{*x, lazyM{}}
	case *InstProcO:
		return &InstProcOL{*x, lazyM{}}
	case *InstProcP:
		return &InstProcPL{*x, lazyM{}}
	case *SmartProc:
		return &SmartProcL{*x, lazyM{}}
	case *SmartProcO:
		return &SmartProcOL{*x, lazyM{}}
	case *SmartProcP:
		return &SmartProcPL{*x, lazyM{}}
	}
	panic("simrt.NewLazyProc: unknown processor type")
}

// NewProc builds a user post-processor of the given class / order class.
func NewProc(class, orderClass string, order int, core ProcCore) any {
	core.H.Ord = order
	o := hOrdM{H: core.H}
	switch class + "/" + orderClass {
	case "plain/":
		return &PlainProc{core}
	case "plain/ordered":
		return &PlainProcO{core, o}
	case "plain/priority":
		return &PlainProcP{core, o, prioM{}}
	case "inst/":
		return &InstProc{InstCore{core}}
	case "inst/ordered":
		return &InstProcO{InstCore{core}, o}
	case "inst/priority":
		return &InstProcP{InstCore{core}, o, prioM{}}
	case "smart/":
		return &SmartProc{SmartCore{InstCore{core}}}
	case "smart/ordered":
		return &SmartProcO{SmartCore{InstCore{core}}, o}
	case "smart/priority":
		return &SmartProcP{SmartCore{InstCore{core}}, o, prioM{}}
	}
	panic("simrt.NewProc: unknown class " + class + "/" + orderClass)
}
