package simrt

import (
	"reflect"
	"sort"

	"github.com/go-kid/ioc/component_definition"
	"github.com/go-kid/ioc/container"
)

// Order modes of the enumeration decorators.
const (
	OrdCanonical = 0 // sorted by name
	OrdReversed  = 1
	OrdFixed     = 2 // one random rank per name, drawn when the name is first seen
	OrdPerCall   = 3 // a fresh random permutation per enumeration
	OrdModes     = 4
)

// Orderer turns a canonical (sorted) list into the order chosen by the simulator. It never
// changes the result set, only its order.
type Orderer struct {
	C    *Ctx
	Mode int
	rank map[string]int
	// NonCanonical counts enumerations whose returned order differed from the sorted one.
	NonCanonical int
	Calls        int
}

func NewOrderer(c *Ctx, mode int) *Orderer {
	return &Orderer{C: c, Mode: mode, rank: map[string]int{}}
}

// Order returns the permutation (indices into the sorted names) to apply.
func (o *Orderer) Order(site string, names []string) []int {
	n := len(names)
	idx := make([]int, n)
	for i := range idx {
		idx[i] = i
	}
	o.Calls++
	if n < 2 {
		return idx
	}
	switch o.Mode {
	case OrdCanonical:
	case OrdReversed:
		for i, j := 0, n-1; i < j; i, j = i+1, j-1 {
			idx[i], idx[j] = idx[j], idx[i]
		}
	case OrdFixed:
		for _, nm := range names {
			if _, ok := o.rank[nm]; !ok {
				o.rank[nm] = o.C.Ch.Choose("rank", 1<<16)
			}
		}
		sort.SliceStable(idx, func(a, b int) bool { return o.rank[names[idx[a]]] < o.rank[names[idx[b]]] })
	case OrdPerCall:
		idx = o.C.Ch.Perm(site, n)
	}
	for i, v := range idx {
		if i != v {
			o.NonCanonical++
			break
		}
	}
	return idx
}

// ---- SingletonRegistry decorator (N1) ----

type OrderedSingletonRegistry struct {
	Inner container.SingletonRegistry
	Ord   *Orderer
}

func (r *OrderedSingletonRegistry) RegisterSingleton(singleton any) {
	r.Inner.RegisterSingleton(singleton)
}
func (r *OrderedSingletonRegistry) GetSingleton(name string) (any, error) {
	return r.Inner.GetSingleton(name)
}
func (r *OrderedSingletonRegistry) ContainsSingleton(name string) bool {
	return r.Inner.ContainsSingleton(name)
}
func (r *OrderedSingletonRegistry) GetSingletonCount() int { return r.Inner.GetSingletonCount() }
func (r *OrderedSingletonRegistry) GetSingletonNames() []string {
	names := r.Inner.GetSingletonNames()
	sort.Strings(names)
	idx := r.Ord.Order("order:singletons", names)
	out := make([]string, len(names))
	for i, k := range idx {
		out[i] = names[k]
	}
	return out
}

// ---- DefinitionRegistry decorator (N2, N4) ----

type OrderedDefinitionRegistry struct {
	Inner container.DefinitionRegistry
	Ord   *Orderer
	C     *Ctx
	// Round is bumped by the engine's scanners so that site keys stay unique.
}

func (r *OrderedDefinitionRegistry) RegisterMeta(m *component_definition.Meta) {
	r.Inner.RegisterMeta(m)
}

func (r *OrderedDefinitionRegistry) GetMetas(opts ...container.Option) []*component_definition.Meta {
	ms := r.Inner.GetMetas(opts...)
	sort.SliceStable(ms, func(i, j int) bool { return ms[i].Name() < ms[j].Name() })
	names := make([]string, len(ms))
	for i, m := range ms {
		names[i] = m.Name()
	}
	idx := r.Ord.Order("order:metas", names)
	out := make([]*component_definition.Meta, len(ms))
	for i, k := range idx {
		out[i] = ms[k]
	}
	return out
}

func (r *OrderedDefinitionRegistry) GetMetaByName(name string) *component_definition.Meta {
	return r.Inner.GetMetaByName(name)
}

func (r *OrderedDefinitionRegistry) GetMetaOrRegister(name string, component any) *component_definition.Meta {
	// every scanner goroutine's first shared action: park here until released
	r.C.Yield("gmor:" + name)
	return r.Inner.GetMetaOrRegister(name, component)
}

// ---- property-group order (N3, hook H2) ----

// InstallPropertyOrder sets the H2 hook for the duration of a run; the returned function
// removes it.
func InstallPropertyOrder(ord *Orderer) func() {
	component_definition.VerifOrderProperties = func(m *component_definition.Meta, props []*component_definition.Property) []*component_definition.Property {
		// canonical: groups sorted by property type, stable inside a group
		groups := map[string][]*component_definition.Property{}
		for _, p := range props {
			groups[string(p.PropertyType)] = append(groups[string(p.PropertyType)], p)
		}
		keys := make([]string, 0, len(groups))
		for k := range groups {
			keys = append(keys, k)
		}
		sort.Strings(keys)
		if len(keys) <= 1 {
			// one group: nothing to order, and the hook hands on what it was given (a copy made
			// here would hide what the callers of GetAllProperties do to the list they receive)
			return props
		}
		idx := ord.Order("order:props", keys)
		out := make([]*component_definition.Property, 0, len(props))
		for _, k := range idx {
			out = append(out, groups[keys[k]]...)
		}
		return out
	}
	return func() { component_definition.VerifOrderProperties = nil }
}

// ---- SingletonComponentRegistry tracer ----

// RegCall is one call on the singleton component registry, as observed from outside.
type RegCall struct {
	Seq   int    `json:"q"`
	Op    string `json:"op"` // get | getE (allow early) | addF | goc-enter | goc-exit | inC | add | remove | fac (factory body entered) | facx (factory body returned) | ef (early factory invoked) | efx
	Name  string `json:"n"`
	Ref   int    `json:"r,omitempty"`   // small id of the returned *Meta (0 = nil)
	Err   bool   `json:"e,omitempty"`   // an error was returned
	Bool  bool   `json:"b,omitempty"`   // result of inC
	Depth int    `json:"d,omitempty"`   // nesting depth of creations at the time of the call
	Raw   int    `json:"raw,omitempty"` // small id of Meta.Raw's address
	// Proxy: the returned definition stands for another one (a version created by wrapping)
	Proxy bool `json:"px,omitempty"`
}

type Tracer struct {
	Inner container.SingletonComponentRegistry
	C     *Ctx
	Calls []RegCall
	refs  map[*component_definition.Meta]int
	raws  map[uintptr]int
	depth int
	// Metas maps ref ids back to the metas (for the engine's completeness judgement).
	Metas map[int]*component_definition.Meta
}

func NewTracer(inner container.SingletonComponentRegistry, c *Ctx) *Tracer {
	return &Tracer{Inner: inner, C: c, refs: map[*component_definition.Meta]int{}, raws: map[uintptr]int{}, Metas: map[int]*component_definition.Meta{}}
}

func (t *Tracer) ref(m *component_definition.Meta) (int, int) {
	if m == nil {
		return 0, 0
	}
	id, ok := t.refs[m]
	if !ok {
		id = len(t.refs) + 1
		t.refs[m] = id
		t.Metas[id] = m
	}
	var rawID int
	if m.Value.IsValid() && m.Value.Kind() == reflect.Pointer {
		p := m.Value.Pointer()
		rid, ok := t.raws[p]
		if !ok {
			rid = len(t.raws) + 1
			t.raws[p] = rid
		}
		rawID = rid
	}
	return id, rawID
}

func (t *Tracer) rec(c RegCall) {
	if m := t.Metas[c.Ref]; m != nil && m.ProxyMeta != nil {
		c.Proxy = true
	}
	c.Seq = t.C.Log("reg:"+c.Op, c.Name, "")
	c.Depth = t.depth
	t.Calls = append(t.Calls, c)
}

func (t *Tracer) AddSingleton(name string, meta *component_definition.Meta) {
	r, raw := t.ref(meta)
	t.rec(RegCall{Op: "add", Name: name, Ref: r, Raw: raw})
	t.Inner.AddSingleton(name, meta)
}

func (t *Tracer) AddSingletonFactory(name string, method container.SingletonFactory) {
	t.rec(RegCall{Op: "addF", Name: name})
	t.Inner.AddSingletonFactory(name, container.FuncSingletonFactory(func() (*component_definition.Meta, error) {
		t.rec(RegCall{Op: "ef", Name: name})
		m, err := method.GetComponent()
		r, raw := t.ref(m)
		t.rec(RegCall{Op: "efx", Name: name, Ref: r, Raw: raw, Err: err != nil})
		return m, err
	}))
}

func (t *Tracer) GetSingleton(name string, allowEarlyReference bool) (*component_definition.Meta, error) {
	m, err := t.Inner.GetSingleton(name, allowEarlyReference)
	op := "get"
	if allowEarlyReference {
		op = "getE"
	}
	r, raw := t.ref(m)
	t.rec(RegCall{Op: op, Name: name, Ref: r, Raw: raw, Err: err != nil})
	return m, err
}

func (t *Tracer) RemoveSingleton(name string) {
	t.rec(RegCall{Op: "remove", Name: name})
	t.Inner.RemoveSingleton(name)
}

func (t *Tracer) GetSingletonOrCreateByFactory(name string, factory container.SingletonFactory) (*component_definition.Meta, error) {
	t.rec(RegCall{Op: "goc-enter", Name: name})
	m, err := t.Inner.GetSingletonOrCreateByFactory(name, container.FuncSingletonFactory(func() (*component_definition.Meta, error) {
		t.rec(RegCall{Op: "fac", Name: name})
		t.depth++
		m, err := factory.GetComponent()
		t.depth--
		r, raw := t.ref(m)
		t.rec(RegCall{Op: "facx", Name: name, Ref: r, Raw: raw, Err: err != nil})
		return m, err
	}))
	r, raw := t.ref(m)
	t.rec(RegCall{Op: "goc-exit", Name: name, Ref: r, Raw: raw, Err: err != nil})
	return m, err
}

func (t *Tracer) IsSingletonCurrentlyInCreation(name string) bool {
	b := t.Inner.IsSingletonCurrentlyInCreation(name)
	t.rec(RegCall{Op: "inC", Name: name, Bool: b})
	return b
}
