package engine

import (
	"encoding/json"
	"fmt"
	"math/rand/v2"
	"sort"
	"time"

	"github.com/anishathalye/porcupine"
	"github.com/go-kid/ioc/component_definition"
	"github.com/go-kid/ioc/container"
	"github.com/go-kid/ioc/syslog"

	"verifsim/model"
	"verifsim/simrt"
	"verifsim/simyield"
)

// linsim: the concurrent utilities (util/sync2.Map, util/list.ConcurrentSets, gcset) are
// compiled from a scratch copy in which a yield point was inserted before every statement.
// 2-4 client goroutines issue operations; exactly one client runs at a time and the Chooser
// decides at every yield point who continues. Invoke/return events are stamped with a global
// event sequence number and the history is checked with porcupine against a sequential
// map / set.

// LinMap / LinSet are satisfied by the instrumented copies.
type LinMap interface {
	Load(key string) (int, bool)
	Store(key string, value int)
	LoadOrStore(key string, value int) (int, bool)
	LoadOrStoreFn(key string, f func() int) (int, bool)
	Delete(key string)
	Range(f func(key string, value int) bool)
}

type LinSet interface {
	Put(s string)
	Exists(t string) bool
	Remove(s string)
	ToArray() []string
	Length() int
}

// LinDefReg is the definition registry built on the instrumented map (the registry the
// scanner goroutines of the parallel scanning phase share).
type LinDefReg = container.DefinitionRegistry

type LinBinding struct {
	NewMap  func() LinMap
	NewSet  func() LinSet
	NewGSet func() LinSet
	// NewDefReg builds the instrumented copy of the default definition registry (nil if the
	// batch was built without it).
	NewDefReg func() LinDefReg
}

// linComp is the component behind a definition in defreg histories; V identifies the definition.
type linComp struct{ V int }

type LinOp struct {
	Kind string `json:"k"` // map: load store los losfn delete range; set: put exists remove toarray; defreg: gor gbn reg metas
	Key  int    `json:"key"`
	Val  int    `json:"v,omitempty"`
}

type LinCase struct {
	Target      string    `json:"target"` // map | set | gset
	Clients     [][]LinOp `json:"clients"`
	Picks       []int     `json:"picks"`
	AtomicRange bool      `json:"atomicRange"`
	Seed        uint64    `json:"seed"`
}

const linKeys = 3

type linIn struct {
	Kind string
	Key  int
	Val  int
}
type linOut struct {
	Val  int
	Ok   bool
	Snap [linKeys]int
	// Junk: the enumeration handed out something that no caller ever put in (a zero value, a nil
	// definition, a key twice, a key nobody used)
	Junk string
}

func keyName(k int) string { return fmt.Sprintf("k%d", k) }

var mapModel = porcupine.Model{
	Init: func() interface{} { return [linKeys]int{} },
	Step: func(state, input, output interface{}) (bool, interface{}) {
		st := state.([linKeys]int)
		in := input.(linIn)
		out := output.(linOut)
		switch in.Kind {
		case "load":
			return out.Ok == (st[in.Key] != 0) && (!out.Ok || out.Val == st[in.Key]), st
		case "store":
			st[in.Key] = in.Val
			return true, st
		case "los", "losfn":
			if st[in.Key] != 0 {
				return out.Ok && out.Val == st[in.Key], st
			}
			st[in.Key] = in.Val
			return !out.Ok && out.Val == in.Val, st
		case "gor":
			// get-or-register: the registered definition if there is one, else the caller's own
			if st[in.Key] != 0 {
				return out.Val == st[in.Key], st
			}
			st[in.Key] = in.Val
			return out.Val == in.Val, st
		case "gbn":
			return out.Ok == (st[in.Key] != 0) && (!out.Ok || out.Val == st[in.Key]), st
		case "reg":
			st[in.Key] = in.Val
			return true, st
		case "metas":
			return out.Snap == st, st
		case "delete":
			st[in.Key] = 0
			return true, st
		case "range":
			return out.Snap == st, st
		}
		return false, st
	},
	DescribeOperation: func(input, output interface{}) string {
		in := input.(linIn)
		out := output.(linOut)
		switch in.Kind {
		case "load":
			return fmt.Sprintf("Load(k%d) -> (%d,%v)", in.Key, out.Val, out.Ok)
		case "store":
			return fmt.Sprintf("Store(k%d,%d)", in.Key, in.Val)
		case "los":
			return fmt.Sprintf("LoadOrStore(k%d,%d) -> (%d,loaded=%v)", in.Key, in.Val, out.Val, out.Ok)
		case "losfn":
			return fmt.Sprintf("LoadOrStoreFn(k%d,%d) -> (%d,loaded=%v)", in.Key, in.Val, out.Val, out.Ok)
		case "delete":
			return fmt.Sprintf("Delete(k%d)", in.Key)
		case "range":
			return fmt.Sprintf("Range -> %v", out.Snap)
		case "gor":
			return fmt.Sprintf("GetMetaOrRegister(k%d,def%d) -> def%d", in.Key, in.Val, out.Val)
		case "gbn":
			return fmt.Sprintf("GetMetaByName(k%d) -> (def%d,%v)", in.Key, out.Val, out.Ok)
		case "reg":
			return fmt.Sprintf("RegisterMeta(k%d,def%d)", in.Key, in.Val)
		case "metas":
			return fmt.Sprintf("GetMetas -> %v", out.Snap)
		}
		return in.Kind
	},
}

var setModel = porcupine.Model{
	Init: func() interface{} { return [linKeys]int{} },
	Step: func(state, input, output interface{}) (bool, interface{}) {
		st := state.([linKeys]int)
		in := input.(linIn)
		out := output.(linOut)
		switch in.Kind {
		case "put":
			st[in.Key] = 1
			return true, st
		case "exists":
			return out.Ok == (st[in.Key] != 0), st
		case "remove":
			st[in.Key] = 0
			return true, st
		case "toarray":
			return out.Snap == st, st
		case "length":
			n := 0
			for _, x := range st {
				n += x
			}
			return out.Val == n, st
		}
		return false, st
	},
	DescribeOperation: func(input, output interface{}) string {
		in := input.(linIn)
		out := output.(linOut)
		switch in.Kind {
		case "put":
			return fmt.Sprintf("Put(k%d)", in.Key)
		case "exists":
			return fmt.Sprintf("Exists(k%d) -> %v", in.Key, out.Ok)
		case "remove":
			return fmt.Sprintf("Remove(k%d)", in.Key)
		case "toarray":
			return fmt.Sprintf("ToArray -> %v", out.Snap)
		case "length":
			return fmt.Sprintf("Length -> %d", out.Val)
		}
		return in.Kind
	},
}

func genLinCase(r *rand.Rand) *LinCase {
	c := &LinCase{Seed: r.Uint64()}
	switch r.IntN(5) {
	case 0:
		c.Target = "set"
	case 1:
		c.Target = "gset"
	case 2:
		c.Target = "defreg"
	default:
		c.Target = "map"
	}
	c.AtomicRange = r.IntN(2) == 0
	nc := 2 + r.IntN(3)
	nkeys := 1 + r.IntN(linKeys)
	withRange := r.IntN(3) != 0
	for ci := 0; ci < nc; ci++ {
		n := 2 + r.IntN(5)
		if nc == 4 && n > 4 {
			n = 4
		}
		var ops []LinOp
		for i := 0; i < n; i++ {
			op := LinOp{Key: r.IntN(nkeys), Val: (ci+1)*100 + i + 1}
			if c.Target == "map" {
				kinds := []string{"load", "store", "los", "losfn", "losfn", "delete"}
				if withRange {
					kinds = append(kinds, "range")
				}
				op.Kind = kinds[r.IntN(len(kinds))]
			} else if c.Target == "defreg" {
				kinds := []string{"gor", "gor", "gor", "gbn", "gbn", "reg"}
				if withRange {
					kinds = append(kinds, "metas")
				}
				op.Kind = kinds[r.IntN(len(kinds))]
			} else {
				kinds := []string{"put", "put", "exists", "exists", "remove"}
				if withRange {
					kinds = append(kinds, "toarray", "length")
				}
				op.Kind = kinds[r.IntN(len(kinds))]
			}
			ops = append(ops, op)
		}
		c.Clients = append(c.Clients, ops)
	}
	return c
}

type linSched struct {
	turn    []chan struct{}
	back    chan struct{}
	cur     int
	atomic  int
	yields  int
	blocked []bool // the client's last yield was a failed attempt to take a lock
}

// runLin executes one case and returns the recorded history.
func runLin(lb *LinBinding, c *LinCase, replay bool) (ops []porcupine.Operation, picks []int, yields int) {
	ops, picks, yields, _ = runLinD(lb, c, replay)
	return
}

// runLinD also reports whether the run ended with every live client waiting for a lock.
func runLinD(lb *LinBinding, c *LinCase, replay bool) (ops []porcupine.Operation, picks []int, yields int, deadlock bool) {
	var ch *simrt.Chooser
	if replay {
		ch = simrt.NewReplay(c.Picks)
	} else {
		ch = simrt.NewSeeded(c.Seed)
	}
	var m LinMap
	var s LinSet
	var dr LinDefReg
	defVal := func(md *component_definition.Meta) int {
		if md == nil {
			return 0
		}
		if lc, ok := md.Raw.(*linComp); ok {
			return lc.V
		}
		return -1
	}
	switch c.Target {
	case "defreg":
		if lb.NewDefReg == nil {
			return nil, nil, 0, false
		}
		syslog.SetLogger(simrt.SilentLogger{})
		dr = lb.NewDefReg()
	case "map":
		m = lb.NewMap()
	case "set":
		s = lb.NewSet()
	case "gset":
		s = lb.NewGSet()
	}
	n := len(c.Clients)
	sc := &linSched{back: make(chan struct{})}
	for i := 0; i < n; i++ {
		sc.turn = append(sc.turn, make(chan struct{}))
	}
	sc.blocked = make([]bool, n)
	simyield.Hook = func(site string) {
		if sc.atomic > 0 && site != simyield.Blocked {
			return
		}
		sc.yields++
		me := sc.cur
		sc.blocked[me] = site == simyield.Blocked
		sc.back <- struct{}{}
		<-sc.turn[me]
	}
	defer func() { simyield.Hook = nil }()
	seq := int64(0)
	done := make([]bool, n)
	results := make([][]porcupine.Operation, n)
	for ci := 0; ci < n; ci++ {
		ci := ci
		go func() {
			<-sc.turn[ci]
			for _, op := range c.Clients[ci] {
				in := linIn{Kind: op.Kind, Key: op.Key, Val: op.Val}
				var out linOut
				seq++
				call := seq
				k := keyName(op.Key)
				switch op.Kind {
				case "load":
					out.Val, out.Ok = m.Load(k)
				case "store":
					m.Store(k, op.Val)
				case "los":
					out.Val, out.Ok = m.LoadOrStore(k, op.Val)
				case "losfn":
					out.Val, out.Ok = m.LoadOrStoreFn(k, func() int { return op.Val })
				case "delete":
					m.Delete(k)
				case "range":
					if c.AtomicRange {
						sc.atomic++
					}
					visited := map[string]bool{}
					m.Range(func(key string, value int) bool {
						known := false
						for q := 0; q < linKeys; q++ {
							if keyName(q) == key {
								out.Snap[q] = value
								known = true
							}
						}
						switch {
						case !known:
							out.Junk = fmt.Sprintf("key %q, which nobody stored", key)
						case value == 0:
							out.Junk = fmt.Sprintf("(%s, 0): the zero value was never stored", key)
						case visited[key]:
							out.Junk = fmt.Sprintf("key %s twice", key)
						}
						visited[key] = true
						return true
					})
					if c.AtomicRange {
						sc.atomic--
					}
				case "gor":
					out.Val = defVal(dr.GetMetaOrRegister(k, &linComp{V: op.Val}))
				case "gbn":
					md := dr.GetMetaByName(k)
					out.Val, out.Ok = defVal(md), md != nil
				case "reg":
					md := component_definition.NewMeta(&linComp{V: op.Val})
					md.SetName(k)
					dr.RegisterMeta(md)
				case "metas":
					if c.AtomicRange {
						sc.atomic++
					}
					visited := map[string]bool{}
					for _, md := range dr.GetMetas() {
						if md == nil {
							out.Junk = "a nil definition"
							continue
						}
						for q := 0; q < linKeys; q++ {
							if keyName(q) == md.Name() {
								out.Snap[q] = defVal(md)
							}
						}
						if visited[md.Name()] {
							out.Junk = "definition " + md.Name() + " twice"
						}
						visited[md.Name()] = true
					}
					if c.AtomicRange {
						sc.atomic--
					}
				case "put":
					s.Put(k)
				case "exists":
					out.Ok = s.Exists(k)
				case "remove":
					s.Remove(k)
				case "toarray", "length":
					if c.AtomicRange {
						sc.atomic++
					}
					if op.Kind == "toarray" {
						visited := map[string]bool{}
						for _, key := range s.ToArray() {
							known := false
							for q := 0; q < linKeys; q++ {
								if keyName(q) == key {
									out.Snap[q] = 1
									known = true
								}
							}
							if !known {
								out.Junk = fmt.Sprintf("element %q, which nobody put in", key)
							} else if visited[key] {
								out.Junk = "element " + key + " twice"
							}
							visited[key] = true
						}
					} else {
						out.Val = s.Length()
					}
					if c.AtomicRange {
						sc.atomic--
					}
				}
				seq++
				results[ci] = append(results[ci], porcupine.Operation{ClientId: ci, Input: in, Call: call, Output: out, Return: seq})
			}
			done[ci] = true
			sc.back <- struct{}{}
		}()
	}
	for {
		var live []int
		for i := 0; i < n; i++ {
			if !done[i] {
				live = append(live, i)
			}
		}
		if len(live) == 0 {
			break
		}
		// clients waiting for a lock are not runnable until somebody else has made progress
		var runnable []int
		for _, i := range live {
			if !sc.blocked[i] {
				runnable = append(runnable, i)
			}
		}
		if len(runnable) == 0 {
			// every live client waits for a lock: deadlock (their goroutines stay parked)
			deadlock = true
			break
		}
		live = runnable
		k := live[ch.Choose("lin", len(live))]
		sc.cur = k
		sc.turn[k] <- struct{}{}
		<-sc.back
		if !sc.blocked[k] {
			// the client made progress (or finished): whoever waited for a lock may try again
			for i := range sc.blocked {
				sc.blocked[i] = false
			}
		}
	}
	for _, r := range results {
		ops = append(ops, r...)
	}
	sort.Slice(ops, func(i, j int) bool { return ops[i].Call < ops[j].Call })
	return ops, ch.Picks(), sc.yields, deadlock
}

func isMutation(kind string) bool {
	switch kind {
	case "store", "los", "losfn", "delete", "put", "remove", "gor", "reg":
		return true
	}
	return false
}

func isScan(kind string) bool {
	return kind == "range" || kind == "toarray" || kind == "length" || kind == "metas"
}

// judgeLin checks one history. Oracles: "both-callers-won" (two load-or-stores of an absent
// key both reported not-loaded without a delete in between - a plain invariant that does
// not depend on the checker), "not-linearizable", and "range-not-a-snapshot" (the history
// becomes linearizable once the scans that overlap a mutation are removed).
func judgeLin(c *LinCase, ops []porcupine.Operation) (vs []model.Violation, inconclusive bool) {
	mdl := mapModel
	if c.Target != "map" && c.Target != "defreg" {
		mdl = setModel
	}
	// plain invariant: without a RegisterMeta in between, every get-or-register of one name
	// answers with one and the same definition
	if c.Target == "defreg" {
		for k := 0; k < linKeys; k++ {
			seen := map[int]bool{}
			regs := 0
			for _, op := range ops {
				in := op.Input.(linIn)
				if in.Key != k {
					continue
				}
				if in.Kind == "gor" {
					seen[op.Output.(linOut).Val] = true
				}
				if in.Kind == "reg" {
					regs++
				}
			}
			if regs == 0 && len(seen) > 1 {
				vs = append(vs, model.Violation{Property: "C20", Oracle: "both-callers-won", Key: keyName(k),
					Detail: fmt.Sprintf("GetMetaOrRegister(%s) answered with %d different definitions although nothing else registered that name: two callers both won; history: %s", keyName(k), len(seen), describeHistory(mdl, ops))})
			}
		}
	}
	if c.Target == "map" {
		for k := 0; k < linKeys; k++ {
			wins, deletes := 0, 0
			for _, op := range ops {
				in := op.Input.(linIn)
				if in.Key != k {
					continue
				}
				if (in.Kind == "los" || in.Kind == "losfn") && !op.Output.(linOut).Ok {
					wins++
				}
				if in.Kind == "delete" {
					deletes++
				}
			}
			if wins > 1+deletes {
				vs = append(vs, model.Violation{Property: "C20", Oracle: "both-callers-won", Key: keyName(k),
					Detail: fmt.Sprintf("%d load-or-store calls on %s reported loaded=false although only %d delete(s) occurred: two callers both won; history: %s", wins, keyName(k), deletes, describeHistory(mdl, ops))})
			}
		}
	}
	// plain invariant: an enumeration hands out only what somebody put in, every key once
	for _, op := range ops {
		if out := op.Output.(linOut); out.Junk != "" {
			vs = append(vs, model.Violation{Property: "C20", Oracle: "enumeration-hands-out-what-nobody-stored", Key: c.Target,
				Detail: fmt.Sprintf("%s handed out %s; history: %s", mdl.DescribeOperation(op.Input, op.Output), out.Junk, describeHistory(mdl, ops))})
			return vs, false
		}
	}
	res := porcupine.CheckOperationsTimeout(mdl, ops, 10*time.Second)
	switch res {
	case porcupine.Ok:
		return vs, false
	case porcupine.Unknown:
		return vs, true
	}
	// illegal: is it only the scans?
	var filtered, perKey []porcupine.Operation
	removed := 0
	nextClient := 0
	for _, op := range ops {
		if op.ClientId >= nextClient {
			nextClient = op.ClientId + 1
		}
	}
	for _, op := range ops {
		in := op.Input.(linIn)
		if isScan(in.Kind) {
			overlaps := false
			for _, o2 := range ops {
				if o2.ClientId != op.ClientId && isMutation(o2.Input.(linIn).Kind) && o2.Call < op.Return && o2.Return > op.Call {
					overlaps = true
				}
			}
			if overlaps {
				removed++
				// what an enumeration that is not a snapshot still owes: for every key, a mapping
				// the key had at some moment of the call - one look-up per key, each on its own
				if look := map[string]string{"range": "load", "toarray": "exists", "metas": "gbn"}[in.Kind]; look != "" {
					out := op.Output.(linOut)
					for q := 0; q < linKeys; q++ {
						perKey = append(perKey, porcupine.Operation{ClientId: nextClient, Call: op.Call, Return: op.Return,
							Input: linIn{Kind: look, Key: q}, Output: linOut{Val: out.Snap[q], Ok: out.Snap[q] != 0}})
						nextClient++
					}
				}
				continue
			}
		}
		filtered = append(filtered, op)
		perKey = append(perKey, op)
	}
	if removed > 0 && !c.AtomicRange && porcupine.CheckOperationsTimeout(mdl, filtered, 10*time.Second) == porcupine.Ok && len(vs) == 0 {
		if porcupine.CheckOperationsTimeout(mdl, perKey, 10*time.Second) == porcupine.Illegal {
			vs = append(vs, model.Violation{Property: "C20", Oracle: "enumeration-reports-a-mapping-the-key-never-had", Key: c.Target,
				Detail: fmt.Sprintf("an enumeration that overlaps mutations reports, for some key, neither what the key held before, nor during, nor after the call (each key judged on its own): %s", describeHistory(mdl, ops))})
			return vs, false
		}
		vs = append(vs, model.Violation{Property: "C20", Oracle: "range-not-a-snapshot", Key: c.Target,
			Detail: fmt.Sprintf("history is not linearizable, but becomes linearizable once the %d Range/ToArray/Length call(s) that overlap a mutation are removed (the enumeration is not a snapshot): %s", removed, describeHistory(mdl, ops))})
		return vs, false
	}
	vs = append(vs, model.Violation{Property: "C20", Oracle: "not-linearizable", Key: c.Target,
		Detail: fmt.Sprintf("no sequential order of the %s operations explains this history (atomicRange=%v): %s", c.Target, c.AtomicRange, describeHistory(mdl, ops))})
	return vs, false
}

// runAndJudgeLin executes a case and judges it; a run in which every live client ends up
// waiting for a lock is a violation of its own (no history to linearize).
func runAndJudgeLin(lb *LinBinding, c *LinCase, replay bool) (ops []porcupine.Operation, picks []int, yields int, vs []model.Violation, inconclusive bool) {
	ops, picks, yields, deadlock := runLinD(lb, c, replay)
	if deadlock {
		mdl := mapModel
		if c.Target != "map" && c.Target != "defreg" {
			mdl = setModel
		}
		return ops, picks, yields, []model.Violation{{Property: "C20", Oracle: "deadlock", Key: c.Target,
			Detail: fmt.Sprintf("every client that has not finished waits for a lock that nobody is going to release (atomicRange=%v); completed operations: %s", c.AtomicRange, describeHistory(mdl, ops))}}, false
	}
	vs, inconclusive = judgeLin(c, ops)
	return ops, picks, yields, vs, inconclusive
}

func describeHistory(m porcupine.Model, ops []porcupine.Operation) string {
	s := ""
	for _, op := range ops {
		s += fmt.Sprintf("[c%d %d-%d %s] ", op.ClientId, op.Call, op.Return, m.DescribeOperation(op.Input, op.Output))
	}
	return s
}

func linCaseExtra(c *LinCase) map[string]any {
	b, _ := json.Marshal(c)
	var m map[string]any
	_ = json.Unmarshal(b, &m)
	return m
}

// minimiseLin drops clients and operations and zeroes picks while the same oracle persists.
func minimiseLin(lb *LinBinding, c *LinCase, oracle string) *LinCase {
	same := func(x *LinCase) bool {
		_, _, _, vs, _ := runAndJudgeLin(lb, x, true)
		for _, v := range vs {
			if v.Oracle == oracle {
				return true
			}
		}
		return false
	}
	clone := func(x *LinCase) *LinCase {
		b, _ := json.Marshal(x)
		var y LinCase
		_ = json.Unmarshal(b, &y)
		return &y
	}
	best := clone(c)
	for changed := true; changed; {
		changed = false
		for ci := 0; ci < len(best.Clients) && len(best.Clients) > 1; ci++ {
			cand := clone(best)
			cand.Clients = append(cand.Clients[:ci], cand.Clients[ci+1:]...)
			if same(cand) {
				best, changed = cand, true
				ci--
			}
		}
		for ci := range best.Clients {
			for oi := 0; oi < len(best.Clients[ci]); oi++ {
				cand := clone(best)
				cand.Clients[ci] = append(cand.Clients[ci][:oi], cand.Clients[ci][oi+1:]...)
				if same(cand) {
					best, changed = cand, true
					oi--
				}
			}
		}
		for i := range best.Picks {
			if best.Picks[i] != 0 {
				cand := clone(best)
				cand.Picks[i] = 0
				if same(cand) {
					best, changed = cand, true
				}
			}
		}
	}
	for len(best.Picks) > 0 && best.Picks[len(best.Picks)-1] == 0 {
		best.Picks = best.Picks[:len(best.Picks)-1]
	}
	return best
}

// linsimBatch explores histories until n cases or the time budget are spent.
func linsimBatch(lb *LinBinding, job *Job, n int, acc *statAcc, res *Result) {
	lane := uint64(0)
	if len(job.ProgIdx) != 0 {
		lane = uint64(job.ProgIdx[0])
	}
	r := rand.New(rand.NewPCG(job.Seed, 0x11a5+lane))
	start := time.Now()
	perOracle := map[string]int{}
	for i := 0; i < n; i++ {
		if job.Budget > 0 && time.Since(start).Seconds() > job.Budget {
			break
		}
		if i%500 == 0 {
			progress(job, "linsim %d", i)
		}
		c := genLinCase(r)
		ops, picks, yields, vs, inc := runAndJudgeLin(lb, c, false)
		c.Picks = picks
		acc.Runs++
		acc.Steps += yields
		acc.Picks += len(picks)
		sig := uint64(0)
		overlap := false
		for _, op := range ops {
			sig = hash64(sig, op.ClientId, op.Call, op.Return, fmt.Sprint(op.Input), fmt.Sprint(op.Output))
		}
		for i := range ops {
			for j := range ops {
				if i != j && ops[i].ClientId != ops[j].ClientId && ops[i].Call < ops[j].Return && ops[j].Call < ops[i].Return {
					overlap = true
				}
			}
		}
		acc.pathSigs[sig] = true
		if overlap {
			acc.NonTrivial++
			acc.distinct[hash64("lin", sig)] = true
			acc.Probes["linsim-history-with-overlapping-operations"]++
		}
		acc.Probes["linsim-"+c.Target+"-histories"]++
		if c.AtomicRange {
			acc.Probes["linsim-range-as-one-step"]++
		} else {
			acc.Probes["linsim-range-interleavable"]++
		}
		if len(acc.Samples) < 2 && overlap {
			mdl := mapModel
			if c.Target != "map" && c.Target != "defreg" {
				mdl = setModel
			}
			acc.Samples = append(acc.Samples, map[string]any{"engine": "linsim", "target": c.Target, "atomicRange": c.AtomicRange, "clients": c.Clients, "picks": len(picks), "history": describeHistory(mdl, ops)})
		}
		if inc {
			acc.Inconcl++
		}
		for _, x := range vs {
			perOracle[x.Oracle]++
			if perOracle[x.Oracle] > 2 {
				acc.Probes["linsim-more-"+x.Oracle]++
				continue
			}
			min := minimiseLin(lb, c, x.Oracle)
			_, _, _, mvs, _ := runAndJudgeLin(lb, min, true)
			f := Finding{Violation: x, Case: &Case{Property: "C20", Engine: "linsim", Extra: linCaseExtra(min)}, Reproduced: true, Observed: x.Detail}
			for _, mv := range mvs {
				if mv.Oracle == x.Oracle {
					f.Violation = mv
					f.Observed = mv.Detail
				}
			}
			nops := 0
			for _, cl := range c.Clients {
				nops += len(cl)
			}
			mops2 := 0
			for _, cl := range min.Clients {
				mops2 += len(cl)
			}
			f.PicksBefore, f.PicksAfter, f.InstBefore, f.InstAfter = len(c.Picks), len(min.Picks), nops, mops2
			res.Findings = append(res.Findings, f)
		}
	}
}

func replayLinsim(lb *LinBinding, c *Case) []model.Violation {
	b, _ := json.Marshal(c.Extra)
	var lc LinCase
	if err := json.Unmarshal(b, &lc); err != nil || len(lc.Clients) == 0 {
		return nil
	}
	_, _, _, vs, _ := runAndJudgeLin(lb, &lc, true)
	return vs
}
