package engine

import (
	"strings"
	"testing"

	"verifsim/model"
	"verifsim/sdl"
)

func mix(a, b uint64) uint64 {
	x := a ^ (b + 0x9e3779b97f4a7c15 + (a << 6) + (a >> 2))
	x ^= x >> 33
	x *= 0xff51afd7ed558ccd
	x ^= x >> 33
	return x
}

// sweepSpecs builds the K fault-free schedules of one program: canonical, reversed, K-2 random.
func sweepSpecs(p *sdl.Program, job *Job, base SpecData) []SpecData {
	k := job.K
	if k < 1 {
		k = 1
	}
	var out []SpecData
	for i := 0; i < k; i++ {
		s := base
		switch i {
		case 0:
			s.Replay, s.Picks, s.ForceOrd, s.Sched = true, nil, 0, "canonical"
		case 1:
			s.Replay, s.Picks, s.ForceOrd, s.Sched = true, nil, 1, "reversed"
		default:
			s.ForceOrd, s.Sched = -1, "random"
			s.Seed = mix(mix(job.Seed, p.Seed), uint64(i))
		}
		out = append(out, s)
	}
	return out
}

// Protocol performs the runs a property needs on one program.
func Protocol(t *testing.T, bind *Binding, job *Job, p *sdl.Program, acc *statAcc) []RunRec {
	var recs []RunRec
	w := model.NewWorld(p, EffectiveCfg(p))
	out := w.StartOutcome()
	var aborted *model.Obs
	do := func(s SpecData) *model.Obs {
		if aborted != nil {
			// a run of this program exceeded its budget (non-termination): one such run is
			// enough, the remaining ones would only burn time
			return aborted
		}
		progress(job, "run %s", p.ID)
		o := Run(t, bind, &RunSpec{SpecData: s, Prog: p, TmpDir: job.TmpDir})
		recs = append(recs, RunRec{Spec: s, Obs: o})
		acc.addRun(p, o, NonTrivial(job.Property, w, out, o))
		if o.OverSteps {
			aborted = o
		}
		if len(acc.Samples) < 3 && o.OK() {
			acc.Samples = append(acc.Samples, sampleOf(p, s, o))
		}
		return o
	}
	switch job.Property {
	case "C01", "C03":
		var first *model.Obs
		var firstSpec SpecData
		for _, s := range sweepSpecs(p, job, SpecData{Lookups: true}) {
			o := do(s)
			if first == nil && o.OK() {
				first, firstSpec = o, s
			}
		}
		// a creation that fails once inside a lookup its caller copes with is attempted again
		// later in the same start: every initialization callback in turn fails the first time
		tolerant := false
		for _, i := range p.Instances {
			tolerant = tolerant || (i.Tolerant && len(i.InitLookups) != 0)
		}
		if job.Property == "C03" && tolerant && first != nil {
			n := 0
			for _, site := range first.Sites {
				if (strings.HasPrefix(site, "init:") || strings.HasPrefix(site, "aps:")) && strings.HasSuffix(site, "#0") && n < 8 {
					n++
					do(faultSpec(firstSpec, first, site))
				}
			}
		}
	case "C06", "C07":
		for _, s := range sweepSpecs(p, job, SpecData{Lookups: true}) {
			do(s)
		}
	case "C02", "C08", "C10":
		for _, s := range sweepSpecs(p, job, SpecData{}) {
			do(s)
		}
	default:
		protocolMore(t, bind, job, p, acc, w, out, do)
	}
	return recs
}

func sampleOf(p *sdl.Program, s SpecData, o *model.Obs) any {
	ev := o.Events
	if len(ev) > 12 {
		ev = ev[:12]
	}
	return map[string]any{
		"program": map[string]any{"id": p.ID, "family": p.Family, "types": len(p.Types), "instances": len(p.Instances), "procs": len(p.Procs), "note": p.Note},
		"sched":   s.Sched, "seed": s.Seed, "faults": s.Faults, "picks": len(o.Picks), "steps": o.Steps,
		"outcome": map[string]any{"runErr": o.RunErr, "panic": o.Panic != ""},
		"wiring":  o.Points, "firstEvents": ev,
	}
}

// NonTrivial is the per-property rule that makes a run count as non-trivial evidence.
func NonTrivial(prop string, w *model.World, out *model.Outcome, o *model.Obs) bool {
	switch prop {
	case "C01", "C03":
		// some component is held by >= 2 holders/points, or an early reference was produced (cycle)
		cnt := map[string]int{}
		for _, h := range o.Points {
			for _, ts := range h {
				for _, x := range ts {
					cnt[x]++
				}
			}
		}
		for _, n := range cnt {
			if n >= 2 {
				return true
			}
		}
		for _, c := range o.Reg {
			if c.Op == "ef" {
				return true
			}
		}
		return false
	case "C02":
		for _, c := range o.Reg {
			if c.Op == "ef" {
				return true // an early reference was used: a cycle was entered
			}
		}
		for _, rs := range out.Res {
			for _, r := range rs {
				if r.SelfOnly {
					return true
				}
			}
		}
		return false
	case "C06", "C08", "C07", "C10":
		// at least one point with >= 2 compatible candidates or a by-name point
		for _, rs := range out.Res {
			for _, r := range rs {
				if len(r.Cands) >= 2 || (prop == "C07" && r.Point.Sel == sdl.SelName) {
					return true
				}
			}
		}
		return false
	}
	return nonTrivialMore(prop, w, out, o)
}
