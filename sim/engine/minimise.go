package engine

import (
	"fmt"
	"testing"
	"time"

	"verifsim/model"
	"verifsim/sdl"
)

func cloneCase(c *Case) *Case {
	n := &Case{Property: c.Property, Engine: c.Engine, Prog: c.Prog.Clone(), Extra: c.Extra}
	for _, s := range c.Specs {
		s2 := s
		s2.Picks = append([]int(nil), s.Picks...)
		s2.Faults = append([]string(nil), s.Faults...)
		n.Specs = append(n.Specs, s2)
	}
	return n
}

// Minimise shrinks a failing case while the same (property, oracle) persists: drop runs,
// zero picks (in blocks, then singly), truncate pick lists, drop faults, drop instances and
// simplify their attributes (no recompilation needed). Bounded by job.MinimS seconds.
func Minimise(t *testing.T, bind *Binding, c *Case, job *Job, same func([]model.Violation) *model.Violation) *Case {
	capS := job.MinimS
	if capS <= 0 {
		capS = 20
	}
	deadline := time.Now().Add(time.Duration(capS * float64(time.Second)))
	best := cloneCase(c)
	if v := same([]model.Violation{{Property: c.Property, Oracle: "step-budget-exceeded"}}); v != nil {
		// non-termination findings: every attempt costs a full budget; only try the cheap
		// reductions (fewer runs, canonical picks)
		capS = 6
		deadline = time.Now().Add(time.Duration(capS * float64(time.Second)))
	}
	try := func(cand *Case) bool {
		if time.Now().After(deadline) {
			return false
		}
		progress(job, "minimise")
		vs, _ := RunCase(t, bind, cand, job.TmpDir)
		if same(vs) != nil {
			best = cand
			return true
		}
		return false
	}
	// 1. drop runs (keep at least one)
	for i := 0; i < len(best.Specs) && len(best.Specs) > 1; {
		cand := cloneCase(best)
		cand.Specs = append(cand.Specs[:i], cand.Specs[i+1:]...)
		if !try(cand) {
			i++
		}
	}
	// 2. picks: all-zero, truncation, block zeroing
	for si := range best.Specs {
		if len(best.Specs[si].Picks) == 0 {
			continue
		}
		cand := cloneCase(best)
		cand.Specs[si].Picks = nil
		if try(cand) {
			continue
		}
		// truncate from the end (missing picks are 0)
		for n := len(best.Specs[si].Picks) / 2; n >= 1; n /= 2 {
			for len(best.Specs[si].Picks) > n {
				cand := cloneCase(best)
				cand.Specs[si].Picks = cand.Specs[si].Picks[:len(cand.Specs[si].Picks)-n]
				if !try(cand) {
					break
				}
			}
		}
		for blk := len(best.Specs[si].Picks) / 2; blk >= 1; blk /= 2 {
			for off := 0; off < len(best.Specs[si].Picks); off += blk {
				cand := cloneCase(best)
				ps := cand.Specs[si].Picks
				changed := false
				for j := off; j < off+blk && j < len(ps); j++ {
					if ps[j] != 0 {
						ps[j] = 0
						changed = true
					}
				}
				if changed {
					try(cand)
				}
			}
			if time.Now().After(deadline) {
				break
			}
		}
		// strip trailing zeros
		ps := best.Specs[si].Picks
		for len(ps) > 0 && ps[len(ps)-1] == 0 {
			ps = ps[:len(ps)-1]
		}
		best.Specs[si].Picks = ps
	}
	// 3. drop faults
	for si := range best.Specs {
		for i := 0; i < len(best.Specs[si].Faults); {
			cand := cloneCase(best)
			cand.Specs[si].Faults = append(cand.Specs[si].Faults[:i], cand.Specs[si].Faults[i+1:]...)
			if !try(cand) {
				i++
			}
		}
	}
	if _, isTwin := best.Extra["twin"]; isTwin {
		return best // the twin relation needs both programs unchanged
	}
	// 4. drop instances, processors, rules; simplify attributes
	for i := 0; i < len(best.Prog.Instances); {
		cand := cloneCase(best)
		cand.Prog.RemoveInstance(cand.Prog.Instances[i].ID)
		if !try(cand) {
			i++
		}
	}
	for i := 0; i < len(best.Prog.Procs); {
		cand := cloneCase(best)
		cand.Prog.Procs = append(cand.Prog.Procs[:i], cand.Prog.Procs[i+1:]...)
		if !try(cand) {
			i++
		}
	}
	for pi := range best.Prog.Procs {
		for i := 0; i < len(best.Prog.Procs[pi].Rules); {
			cand := cloneCase(best)
			r := cand.Prog.Procs[pi].Rules
			cand.Prog.Procs[pi].Rules = append(r[:i], r[i+1:]...)
			if !try(cand) {
				i++
			}
		}
	}
	for i := range best.Prog.Instances {
		for _, f := range []func(*sdl.Instance){
			func(x *sdl.Instance) { x.Qual = "" },
			func(x *sdl.Instance) { x.Kind = "" },
			func(x *sdl.Instance) { x.Order = 0 },
			func(x *sdl.Instance) { x.OrderRaw = nil },
			func(x *sdl.Instance) { x.InitLookups = nil },
			func(x *sdl.Instance) { x.Prewired = false },
		} {
			cand := cloneCase(best)
			x := cand.Prog.Instances[i]
			before := fmt.Sprint(*x)
			f(x)
			if fmt.Sprint(*x) != before {
				try(cand)
			}
		}
	}
	if len(best.Prog.Refuse) != 0 {
		cand := cloneCase(best)
		cand.Prog.Refuse = nil
		try(cand)
	}
	for i := 0; i < len(best.Prog.Sources); {
		cand := cloneCase(best)
		cand.Prog.Sources = append(cand.Prog.Sources[:i], cand.Prog.Sources[i+1:]...)
		if !try(cand) {
			i++
		}
	}
	return best
}
