package engine

import (
	"encoding/json"
	"fmt"
	"hash/fnv"
	"os"
	"runtime/debug"
	"sort"
	"strings"
	"testing"
	"time"

	"verifsim/model"
	"verifsim/proto"
	"verifsim/sdl"
)

type (
	SpecData = proto.SpecData
	Case     = proto.Case
	Finding  = proto.Finding
	Job      = proto.Job
	Stats    = proto.Stats
	Result   = proto.Result
)

type statAcc struct {
	Stats
	distinct map[uint64]bool
	pathSigs map[uint64]bool
}

func newAcc() *statAcc {
	return &statAcc{Stats: Stats{Outcomes: map[string]int{}, FaultArmed: map[string]int{}, FaultFired: map[string]int{}, Probes: map[string]int{}},
		distinct: map[uint64]bool{}, pathSigs: map[uint64]bool{}}
}

func (a *statAcc) finish() Stats {
	for k := range a.distinct {
		a.Distinct = append(a.Distinct, k)
	}
	sort.Slice(a.Distinct, func(i, j int) bool { return a.Distinct[i] < a.Distinct[j] })
	for k := range a.pathSigs {
		a.PathSigs = append(a.PathSigs, k)
	}
	sort.Slice(a.PathSigs, func(i, j int) bool { return a.PathSigs[i] < a.PathSigs[j] })
	return a.Stats
}

func hash64(parts ...any) uint64 {
	h := fnv.New64a()
	for _, p := range parts {
		fmt.Fprint(h, p, "|")
	}
	return h.Sum64()
}

func faultKind(site string) string {
	if i := strings.IndexByte(site, ':'); i >= 0 {
		return site[:i]
	}
	return site
}

func (a *statAcc) addRun(p *sdl.Program, o *model.Obs, nontrivial bool) {
	a.Runs++
	a.Steps += o.Steps
	a.Picks += len(o.Picks)
	switch {
	case o.Stuck || o.OverSteps:
		a.Outcomes["stuck"]++
	case o.Panic != "":
		a.Outcomes["panic"]++
	case o.RunErr:
		a.Outcomes["error"]++
	default:
		a.Outcomes["ok"]++
	}
	for _, f := range o.Faults {
		a.FaultArmed[faultKind(f)]++
	}
	for _, f := range o.Fired {
		a.FaultFired[faultKind(f)]++
	}
	if len(o.Events) == 0 && len(o.Fired) == 0 {
		// parallel mode (racesim) keeps no event log: an armed permanent fault fired iff its
		// callback was reached - scanners whenever the start failed, closers whenever Close ran
		for _, f := range o.Faults {
			if k := faultKind(f); (k == "scan" && o.RunErr) || (k == "close" && o.CloseReturned) {
				a.FaultFired[k]++
			}
		}
	}
	if o.SleptS > 0 {
		a.Probes["close-phase-simulated-seconds"] += o.SleptS
		a.Probes["time-passed-while-closers-were-parked"]++
	}
	a.pathSigs[o.PathSig] = true
	if nontrivial {
		a.NonTrivial++
		key := hash64(ShapeHash(p), o.PathSig, strings.Join(o.Faults, ","))
		if len(o.CloseSnaps) != 0 {
			key = hash64(key, fmt.Sprint(o.Picks)) // release order matters for the Close phase
		}
		a.distinct[key] = true
	}
	if o.NonCanonical > 0 {
		a.Probes["candidate-order-non-canonical"]++
	}
	if o.PropsNonCan > 0 {
		a.Probes["property-group-order-non-canonical"]++
	}
	if o.Contended > 0 {
		a.Probes["scheduler-choice-among-several-parked"]++
	}
	probeReg(a.Probes, o)
	if len(o.RegOwner) != 0 {
		a.Probes["rejected-registration-owner-read"]++
	}
	if len(o.CfgLate) != 0 && o.OK() {
		for _, i := range p.Instances {
			if i.SetKey != "" {
				a.Probes["lazy-component-created-after-configuration-change"]++
				break
			}
		}
	}
	for h, fs := range o.Points {
		for _, ts := range fs {
			for _, x := range ts {
				if x != h && strings.HasPrefix(x, "sub:") && o.OK() && subOf(p, x) == h {
					a.Probes["holder-holds-its-own-early-substitute"]++
				}
			}
		}
	}
	// observation outside every claimed property: a component re-created after a failed
	// attempt receives duplicate slice elements (candidates accumulate on the definition)
	for _, c := range o.Cont {
		if c.Err || c.Target == "" {
			continue
		}
		dup := false
		for _, ts := range c.Points {
			seen := map[string]bool{}
			for _, x := range ts {
				if seen[x] {
					dup = true
				}
				seen[x] = true
			}
		}
		if dup {
			a.Probes["observation:re-created-component-has-duplicate-slice-elements"]++
			break
		}
	}
}

func probeReg(pr map[string]int, o *model.Obs) {
	ef := map[string]int{}
	getE := map[string]int{}
	early := false
	for _, c := range o.Reg {
		switch c.Op {
		case "ef":
			ef[c.Name]++
			early = true
		case "getE":
			if c.Ref != 0 {
				getE[c.Name]++
			}
		}
	}
	if early {
		pr["early-reference-produced"]++
	}
	for n := range ef {
		if getE[n] >= 2 {
			pr["early-reference-requested-twice"]++
			break
		}
	}
	for _, ev := range o.Events {
		if ev.Kind == "subst" {
			pr["substitute-returned"]++
			break
		}
	}
}

// ShapeHash identifies the shape of a program (everything but ids and seeds).
func ShapeHash(p *sdl.Program) uint64 {
	q := p.Clone()
	q.ID, q.Seed, q.Note = "", 0, ""
	s := q.JSON()
	s = strings.ReplaceAll(s, p.ID, "P")
	return hash64(s)
}

func loadJSON(path string, v any) error {
	b, err := os.ReadFile(path)
	if err != nil {
		return err
	}
	return json.Unmarshal(b, v)
}

func writeJSON(path string, v any) error {
	b, err := json.Marshal(v)
	if err != nil {
		return err
	}
	tmp := path + ".tmp"
	if err := os.WriteFile(tmp, b, 0o644); err != nil {
		return err
	}
	return os.Rename(tmp, path)
}

// WorkerMain is the body of the generated test binary's only test.
func WorkerMain(t *testing.T, bind *Binding) {
	jobPath := os.Getenv("VERIF_JOB")
	if jobPath == "" {
		t.Skip("VERIF_JOB not set")
	}
	var job Job
	if err := loadJSON(jobPath, &job); err != nil {
		t.Fatalf("job: %v", err)
	}
	// unbounded recursion must end in a quick fatal error, not in minutes of stack growth
	debug.SetMaxStack(128 << 20)
	res := &Result{}
	func() {
		defer func() {
			if r := recover(); r != nil {
				stk := string(debug.Stack())
				if len(stk) > 3000 {
					stk = stk[:3000]
				}
				res.Error = fmt.Sprintf("worker panic: %v\n%s", r, stk)
			}
		}()
		switch job.Mode {
		case "check":
			runCheck(t, bind, &job, res)
		case "replay":
			runReplay(t, bind, &job, res)
		case "trace":
			runTrace(t, bind, &job, res)
		default:
			res.Error = "unknown mode " + job.Mode
		}
	}()
	if err := writeJSON(job.Out, res); err != nil {
		t.Fatalf("write result: %v", err)
	}
}

func progress(job *Job, format string, args ...any) {
	if job.Progress == "" {
		return
	}
	f, err := os.OpenFile(job.Progress, os.O_APPEND|os.O_CREATE|os.O_WRONLY, 0o644)
	if err != nil {
		return
	}
	fmt.Fprintf(f, format+"\n", args...)
	f.Close()
}

// RunCase performs the runs of a case and judges them.
func RunCase(t *testing.T, bind *Binding, c *Case, tmp string) ([]model.Violation, []*model.Obs) {
	var obs []*model.Obs
	for i := range c.Specs {
		sp := &RunSpec{SpecData: c.Specs[i], Prog: c.Prog, TmpDir: tmp}
		obs = append(obs, Run(t, bind, sp))
	}
	vs := model.Judge(c.Property, c.Prog, EffectiveCfg(c.Prog), obs)
	if d := os.Getenv("VERIF_DUMP"); d != "" {
		dumpRuns(d, c.Prog, obs, vs)
	}
	if twin := twinOf(c); twin != nil {
		for i := range c.Specs {
			fo := Run(t, bind, &RunSpec{SpecData: c.Specs[i], Prog: twin, TmpDir: tmp})
			for _, x := range model.CheckTwins(twin, EffectiveCfg(twin), fo, obs[i]) {
				x.Runs = []int{i}
				vs = append(vs, x)
			}
		}
	}
	return vs, obs
}

// twinOf decodes the flat twin program stored with a C11 case.
func twinOf(c *Case) *sdl.Program {
	raw, ok := c.Extra["twin"]
	if !ok {
		return nil
	}
	b, _ := json.Marshal(raw)
	var p sdl.Program
	if json.Unmarshal(b, &p) != nil || len(p.Types) == 0 {
		return nil
	}
	return &p
}

// EffectiveCfg is the flattened configuration the program's sources are meant to produce
// (reference merge, C15); used by the resolver for ${key} names.
func EffectiveCfg(p *sdl.Program) map[string]string {
	return model.MergeSources(p)
}

func runReplay(t *testing.T, bind *Binding, job *Job, res *Result) {
	c := job.Case
	var vs []model.Violation
	switch c.Engine {
	case "", "startsim":
		vs, _ = RunCase(t, bind, c, job.TmpDir)
	case "racesim":
		// re-run the program's parallel protocol; the race detector is the oracle (the
		// driver looks for its report)
		j2 := *job
		j2.Property = "C20"
		if j2.K == 0 {
			j2.K = 6
		}
		// real parallelism: whether the two conflicting accesses both happen within the race
		// detector's window depends on real timing, so the protocol is repeated a few times
		for rep := 0; rep < 6; rep++ {
			progress(job, "run %s", c.Prog.ID)
			Protocol(t, bind, &j2, c.Prog, newAcc())
		}
	default:
		vs = replayOther(t, bind, c, job)
	}
	for _, x := range vs {
		res.Findings = append(res.Findings, Finding{Violation: x, Case: c, Reproduced: true})
	}
	res.Stats.Runs = len(c.Specs)
}

func runCheck(t *testing.T, bind *Binding, job *Job, res *Result) {
	start := time.Now()
	acc := newAcc()
	defer func() {
		res.Stats = acc.finish()
		res.Stats.WallS = time.Since(start).Seconds()
	}()
	switch job.Property {
	case "C04r", "C14", "C20l", "C12d":
		// engines without generated programs are dispatched by checkOther
	}
	if handled := checkOther(t, bind, job, res, acc); handled {
		return
	}
	var progs []*sdl.Program
	if err := loadJSON(job.Batch, &progs); err != nil {
		res.Error = "batch: " + err.Error()
		return
	}
	for _, pi := range job.ProgIdx {
		p := progs[pi]
		progress(job, "prog %d %s", pi, p.ID)
		acc.Programs++
		recs := Protocol(t, bind, job, p, acc)
		var obs []*model.Obs
		for _, r := range recs {
			obs = append(obs, r.Obs)
		}
		vs := model.Judge(job.Property, p, EffectiveCfg(p), obs)
		if p.Twin != "" && job.Property == "C11" {
			// the flat twin runs under the same specs (same program seed => same schedules)
			for _, q := range progs {
				if q.ID != p.Twin {
					continue
				}
				for i, r := range recs {
					fo := Run(t, bind, &RunSpec{SpecData: r.Spec, Prog: q, TmpDir: job.TmpDir})
					acc.Runs++
					for _, x := range model.CheckTwins(q, EffectiveCfg(q), fo, r.Obs) {
						x.Runs = []int{i}
						vs = append(vs, x)
					}
				}
			}
		}
		if d := os.Getenv("VERIF_DUMP"); d != "" {
			dumpRuns(d, p, obs, vs)
		}
		if len(vs) == 0 {
			continue
		}
		// one finding per (oracle) per program is enough
		seen := map[string]bool{}
		for _, x := range vs {
			if seen[x.Oracle] {
				continue
			}
			seen[x.Oracle] = true
			if len(res.Findings) >= job.MaxFind && job.MaxFind > 0 {
				break
			}
			f := buildFinding(t, bind, job, p, recs, x)
			res.Findings = append(res.Findings, f)
		}
	}
}

// RunRec is one performed run.
type RunRec struct {
	Spec SpecData
	Obs  *model.Obs
}

// buildFinding narrows a violation to the runs that exhibit it, converts them to replay
// form (recorded picks), re-runs them in-process and minimises.
func buildFinding(t *testing.T, bind *Binding, job *Job, p *sdl.Program, recs []RunRec, x model.Violation) Finding {
	c := &Case{Property: job.Property, Engine: "startsim", Prog: p}
	if p.Twin != "" && job.Property == "C11" {
		var progs []*sdl.Program
		if loadJSON(job.Batch, &progs) == nil {
			for _, q := range progs {
				if q.ID == p.Twin {
					b, _ := json.Marshal(q)
					var m map[string]any
					_ = json.Unmarshal(b, &m)
					c.Extra = map[string]any{"twin": m}
				}
			}
		}
	}
	idx := x.Runs
	if len(idx) == 0 {
		for i := range recs {
			idx = append(idx, i)
		}
	}
	for _, i := range idx {
		sp := recs[i].Spec
		sp.Replay = true
		sp.Picks = recs[i].Obs.Picks
		c.Specs = append(c.Specs, sp)
	}
	f := Finding{Violation: x, Case: c, Observed: x.Detail}
	same := func(vs []model.Violation) *model.Violation {
		for i := range vs {
			if vs[i].Property == x.Property && vs[i].Oracle == x.Oracle {
				return &vs[i]
			}
		}
		return nil
	}
	vs, _ := RunCase(t, bind, c, job.TmpDir)
	if same(vs) == nil {
		f.Reproduced = false
		return f
	}
	f.Reproduced = true
	for _, s := range c.Specs {
		f.PicksBefore += len(s.Picks)
	}
	f.InstBefore = len(p.Instances)
	min := Minimise(t, bind, c, job, same)
	f.Case = min
	for _, s := range min.Specs {
		f.PicksAfter += len(s.Picks)
	}
	f.InstAfter = len(min.Prog.Instances)
	if vs, _ := RunCase(t, bind, min, job.TmpDir); same(vs) != nil {
		d := same(vs)
		f.Violation = *d
		f.Violation.Runs = nil
		f.Observed = d.Detail
	}
	return f
}

func dumpRuns(path string, p *sdl.Program, obs []*model.Obs, vs []model.Violation) {
	f, err := os.OpenFile(path, os.O_APPEND|os.O_CREATE|os.O_WRONLY, 0o644)
	if err != nil {
		return
	}
	defer f.Close()
	w := model.NewWorld(p, EffectiveCfg(p))
	out := w.StartOutcome()
	for _, o := range obs {
		b, _ := json.Marshal(map[string]any{"prog": p.ID, "note": p.Note, "family": p.Family, "verdict": out.Verdict, "why": out.Why, "sched": o.Sched, "faults": o.Faults,
			"runErr": o.RunErr, "err": o.ErrText, "panic": o.Panic, "stk": o.PanicStk, "steps": o.Steps, "picks": len(o.Picks), "nviol": len(vs)})
		f.Write(append(b, '\n'))
		if os.Getenv("VERIF_DUMP_EVENTS") != "" {
			for _, e := range o.Events {
				fmt.Fprintf(f, "  ev %d %s %s %s\n", e.Seq, e.Kind, e.Subj, e.Detail)
			}
			for _, c := range o.Reg {
				fmt.Fprintf(f, "  reg %d %s %s err=%v\n", c.Seq, c.Op, c.Name, c.Err)
			}
		}
	}
}

// runTrace is the determinism self-test's worker mode: it performs the property's protocol
// on every program and records one hash per run over everything observed (decisions,
// events, registry calls, wiring, outcomes) except texts that contain addresses.
func runTrace(t *testing.T, bind *Binding, job *Job, res *Result) {
	var progs []*sdl.Program
	if err := loadJSON(job.Batch, &progs); err != nil {
		res.Error = "batch: " + err.Error()
		return
	}
	acc := newAcc()
	var lines []any
	for _, pi := range job.ProgIdx {
		p := progs[pi]
		j2 := *job
		if j2.Property == "" {
			j2.Property = propertyForFamily(p.Family)
		}
		recs := Protocol(t, bind, &j2, p, acc)
		for ri, r := range recs {
			o := *r.Obs
			o.ErrText, o.Panic, o.PanicStk = "", fmt.Sprint(o.Panic != ""), ""
			for i := range o.Cont {
				if o.Cont[i].Panic != "" {
					o.Cont[i].Panic = "p"
				}
			}
			for k, l := range o.Lookup {
				if l.Panic != "" {
					l.Panic = "p"
					o.Lookup[k] = l
				}
			}
			b, _ := json.Marshal(o)
			lines = append(lines, fmt.Sprintf("%s/%d %016x picks=%d events=%d", p.ID, ri, hash64(string(b)), len(o.Picks), len(o.Events)))
		}
	}
	res.Stats = acc.finish()
	res.Stats.Samples = lines
}

func propertyForFamily(f string) string {
	switch f {
	case "wire", "byname":
		return "C01"
	case "wrapname":
		return "C07"
	case "subst":
		return "C03"
	case "life":
		return "C05"
	case "config":
		return "C18"
	case "cfgmerge":
		return "C15"
	case "embed":
		return "C11"
	case "close":
		return "C14"
	}
	return "C01"
}

// subOf returns the instance a substitute object id ("sub:<slot>") stands for.
func subOf(p *sdl.Program, obj string) string {
	slot := strings.TrimPrefix(obj, "sub:")
	slot, _, _ = strings.Cut(slot, "#")
	for _, pr := range p.Procs {
		for _, r := range pr.Rules {
			if r.Sub == slot {
				return r.Target
			}
		}
	}
	return ""
}
