package engine

import (
	"testing"

	"verifsim/model"
	"verifsim/sdl"
)

func protocolMore(t *testing.T, bind *Binding, job *Job, p *sdl.Program, acc *statAcc, w *model.World, out *model.Outcome, do func(SpecData) *model.Obs) {
}

func nonTrivialMore(prop string, w *model.World, out *model.Outcome, o *model.Obs) bool {
	return len(o.Reg) > 0
}

func checkOther(t *testing.T, bind *Binding, job *Job, res *Result, acc *statAcc) bool {
	return false
}

func replayOther(t *testing.T, bind *Binding, c *Case, job *Job) []model.Violation {
	return nil
}
