package engine

import (
	"strings"
	"testing"

	"verifsim/model"
	"verifsim/sdl"
)

func param(job *Job, name string, def float64) float64 {
	if v, ok := job.Params[name]; ok {
		return v
	}
	return def
}

// faultSpec replays the schedule of a discovery run with the given faults armed.
func faultSpec(disc SpecData, o *model.Obs, faults ...string) SpecData {
	s := disc
	s.Replay = true
	s.Picks = o.Picks
	s.Faults = faults
	return s
}

func protocolMore(t *testing.T, bind *Binding, job *Job, p *sdl.Program, acc *statAcc, w *model.World, out *model.Outcome, do func(SpecData) *model.Obs) {
	switch job.Property {
	case "C12":
		for _, s := range sweepSpecs(p, job, SpecData{}) {
			do(s)
		}
	case "C05":
		var first *model.Obs
		var firstSpec SpecData
		// (queries by interface and look-ups by name after the start: what they create is judged too)
		for _, s := range sweepSpecs(p, job, SpecData{Lookups: true}) {
			o := do(s)
			if first == nil && o.OK() {
				first, firstSpec = o, s
			}
		}
		// "once per start" also holds when a callback fails: a few of the discovered callback
		// sites fail in turn (early-reference callbacks first: they are the rare ones)
		if first != nil {
			var early, other []string
			for _, site := range first.Sites {
				kind, _, _ := strings.Cut(site, ":")
				switch kind {
				case "early":
					early = append(early, site)
				case "before", "after", "afterInst", "props", "beforeInst", "init", "aps":
					other = append(other, site)
				}
			}
			n := 0
			for _, site := range early {
				if n < 3 {
					n++
					do(faultSpec(firstSpec, first, site))
				}
			}
			for k := 0; k < 3 && len(other) != 0; k++ {
				do(faultSpec(firstSpec, first, other[int(mix(p.Seed, uint64(k))%uint64(len(other)))]))
			}
		}
	case "C20":
		// racesim: real parallelism (waves), the race detector is the oracle
		progress(job, "run %s", p.ID)
		utilStress(mix(job.Seed, p.Seed))
		var comps, closers []string
		for _, i := range p.Instances {
			comps = append(comps, p.NameOf(i))
			if t := p.TypeByName(i.Type); t.Role == "closer" || t.AlsoCloser {
				closers = append(closers, i.ID)
			}
		}
		for k := 0; k < job.K; k++ {
			s := SpecData{Parallel: true, Close: true, ForceOrd: -1, Sched: "parallel", Seed: mix(mix(job.Seed, p.Seed), uint64(k))}
			// every other pair of runs: nothing parks at all (races between a loop that starts
			// goroutines and those goroutines)
			s.Free = k%4 >= 2
			if k%2 == 0 {
				// several scanner invocations fail in the same round
				for _, sc := range p.Scanners {
					n := 0
					for ci, name := range comps {
						if mix(mix(p.Seed, uint64(k)), uint64(ci))%100 < 35 {
							s.Faults = append(s.Faults, "scan:"+sc.ID+"@"+name+"#*")
							n++
						}
					}
					if n < 2 && len(comps) >= 2 {
						s.Faults = append(s.Faults, "scan:"+sc.ID+"@"+comps[0]+"#*", "scan:"+sc.ID+"@"+comps[1]+"#*")
					}
				}
			} else {
				for ci, c := range closers {
					if mix(mix(p.Seed, uint64(k)), uint64(ci))%100 < 50 {
						s.Faults = append(s.Faults, "close:"+c+"#*")
					}
				}
			}
			do(s)
		}
	case "C11":
		for _, s := range sweepSpecs(p, job, SpecData{}) {
			do(s)
		}
	case "C15":
		for _, s := range sweepSpecs(p, job, SpecData{GetPaths: model.AllLeafPaths(p)}) {
			do(s)
		}
	case "C18":
		// lazy components are created by the lookups that follow Run
		for _, s := range sweepSpecs(p, job, SpecData{GetPaths: model.AllLeafPaths(p), Lookups: true}) {
			do(s)
		}
	case "C14":
		var closers []string
		for _, i := range p.Instances {
			if t := p.TypeByName(i.Type); t.Role == "closer" || t.AlsoCloser {
				closers = append(closers, i.ID)
			}
		}
		var first *model.Obs
		var firstSpec SpecData
		for i, s := range sweepSpecs(p, job, SpecData{Close: true}) {
			if i >= 1 {
				// a seed-chosen subset of the closers fails
				for ci, c := range closers {
					if mix(mix(p.Seed, uint64(i)), uint64(ci))%100 < 30 {
						s.Faults = append(s.Faults, "close:"+c+"#0")
					}
				}
			}
			o := do(s)
			if first == nil && o.OK() && len(s.Faults) == 0 {
				first, firstSpec = o, s
			}
		}
		// a runner fails: Run returns its error, and the shutdown that follows still reaches
		// every closer
		if first != nil {
			n := 0
			for _, site := range first.Sites {
				if strings.HasPrefix(site, "run:") && n < 2 {
					n++
					fs := faultSpec(firstSpec, first, site)
					fs.CloseAfterRunnerFailure = true
					do(fs)
				}
			}
		}
		// the initialization of a closer fails the first time it is attempted: either the start
		// fails, or the closer is there (created by a later attempt) and gets closed like the others
		if first != nil {
			isCloser := map[string]bool{}
			for _, c := range closers {
				isCloser[c] = true
			}
			n := 0
			for _, site := range first.Sites {
				if kind, rest, ok := strings.Cut(site, ":"); ok && (kind == "init" || kind == "aps") && strings.HasSuffix(rest, "#0") && n < 4 {
					if subj, _, _ := strings.Cut(rest, "#"); isCloser[subj] {
						n++
						do(faultSpec(firstSpec, first, site))
						// ... and when the start fails, the application retries the refresh on the same
						// App and shuts down what it then has
						rs := faultSpec(firstSpec, first, site)
						rs.RetryRefresh = true
						do(rs)
					}
				}
			}
		}
	case "C13":
		specs := sweepSpecs(p, job, SpecData{})
		for i, s := range specs {
			o := do(s)
			if i > 2 || !o.OK() {
				continue
			}
			// every runner in turn fails (exhaustive per explored schedule); so does the
			// initialization of every runner (a runner that cannot be created must not silently
			// drop out of the sequence)
			isRunner := map[string]bool{}
			for _, inst := range p.Instances {
				if p.TypeByName(inst.Type).Role == "runner" {
					isRunner[inst.ID] = true
				}
			}
			for _, site := range o.Sites {
				if strings.HasPrefix(site, "run:") {
					do(faultSpec(s, o, site))
				}
				if kind, rest, ok := strings.Cut(site, ":"); ok && (kind == "init" || kind == "aps") {
					if subj, _, _ := strings.Cut(rest, "#"); isRunner[subj] {
						do(faultSpec(s, o, site))
					}
				}
			}
		}
	case "C09":
		specs := sweepSpecs(p, job, SpecData{})
		nSched := int(param(job, "faultSchedules", 2))
		for i, s := range specs {
			o := do(s)
			if i >= nSched {
				continue
			}
			sites := dedupStrings(o.Sites)
			for _, site := range sites {
				if strings.HasPrefix(site, "close:") {
					continue
				}
				do(faultSpec(s, o, site))
			}
			// several invocations of one custom scanner fail in the same (parallel) round
			byScanner := map[string][]string{}
			for _, site := range sites {
				if strings.HasPrefix(site, "scan:") {
					id := site[5:strings.IndexByte(site, '@')]
					byScanner[id] = append(byScanner[id], site)
				}
			}
			for _, id := range sdl.SortedKeys(byScanner) {
				ss := byScanner[id]
				if len(ss) >= 2 {
					do(faultSpec(s, o, ss[0], ss[len(ss)-1]))
				}
				if len(ss) >= 3 {
					do(faultSpec(s, o, ss[0], ss[len(ss)/2], ss[len(ss)-1]))
					do(faultSpec(s, o, ss...))
				}
			}
			// sampled pairs (two faults can only both fire where callbacks run concurrently or
			// the first is swallowed; the second must then still be reported)
			npairs := int(param(job, "faultPairs", 4))
			for k := 0; k < npairs && len(sites) >= 2; k++ {
				a := sites[int(mix(p.Seed, uint64(k*2+i))%uint64(len(sites)))]
				b := sites[int(mix(p.Seed, uint64(k*2+1+i*7))%uint64(len(sites)))]
				if a != b {
					do(faultSpec(s, o, a, b))
				}
			}
		}
	case "C04":
		specs := sweepSpecs(p, job, SpecData{Lookups: true})
		nSched := int(param(job, "faultSchedules", 2))
		for i, s := range specs {
			o := do(s)
			if i >= nSched {
				continue
			}
			s2 := s
			s2.Lookups = false
			s2.Continue = true
			for j, site := range dedupStrings(o.Sites) {
				if strings.HasPrefix(site, "close:") || strings.HasPrefix(site, "run:") {
					continue
				}
				fs := faultSpec(s2, o, site)
				fs.ClearFaults = j%2 == 0 // transient vs permanent failure
				if !fs.ClearFaults {
					// permanent: every occurrence of that callback fails
					fs.Faults = []string{site[:strings.LastIndexByte(site, '#')] + "#*"}
				}
				do(fs)
			}
		}
	}
}

func dedupStrings(xs []string) []string {
	seen := map[string]bool{}
	var out []string
	for _, x := range xs {
		if !seen[x] {
			seen[x] = true
			out = append(out, x)
		}
	}
	return out
}

func nonTrivialMore(prop string, w *model.World, out *model.Outcome, o *model.Obs) bool {
	switch prop {
	case "C05":
		// a component with >= 1 dependency and an Init, or a lazy component, was created
		n := 0
		for _, e := range o.Events {
			if e.Kind == "init" {
				n++
			}
		}
		return n >= 2
	case "C12":
		return len(w.P.Procs) >= 2 || countKind(o, "run") >= 2 || countKind(o, "load") >= 2
	case "C13":
		return countKind(o, "run") >= 1
	case "C20":
		return o.MaxParked >= 2
	case "C11":
		for _, t := range w.P.Types {
			for _, pt := range t.Points {
				if len(pt.Embed) != 0 {
					return true
				}
			}
			if len(t.Frame)+len(t.Custom) != 0 {
				return true
			}
		}
		return false
	case "C14":
		return len(o.CloseSnaps) >= 2
	case "C15":
		return len(model.ActiveSources(w.P)) >= 2 && model.ActiveFault(w.P) == ""
	case "C18":
		for _, t := range w.P.Types {
			for _, cf := range t.Config {
				if cf.Validate != "" || cf.Menu == "sum" || cf.Menu == "mul" || cf.Menu == "sumDef" || cf.Menu == "indirect" {
					return true
				}
			}
		}
		return false
	case "C09":
		return len(o.Fired) != 0 || out.Verdict == model.MustFail
	case "C04":
		if len(o.Faults) != 0 {
			return len(o.Fired) != 0
		}
		for _, c := range o.Reg {
			if c.Op == "ef" {
				return true
			}
		}
		return false
	}
	return len(o.Reg) > 0
}

func countKind(o *model.Obs, kind string) int {
	n := 0
	for _, e := range o.Events {
		if e.Kind == kind {
			n++
		}
	}
	return n
}

// checkOther runs the engines that need no generated program; it reports true when the
// job is completely handled.
func checkOther(t *testing.T, bind *Binding, job *Job, res *Result, acc *statAcc) bool {
	switch job.Property {
	case "C04":
		regsimBatch(job, int(param(job, "regsimTrees", 30)), acc, res)
	case "C12":
		sorterBatch(job, int(param(job, "sorterCases", 400)), acc, res)
	case "C20":
		if param(job, "linsim", 0) != 0 {
			if bind.Lin == nil {
				res.Error = "linsim: the batch was built without the instrumented utilities"
				return true
			}
			linsimBatch(bind.Lin, job, int(param(job, "linCases", 4000)), acc, res)
			return true
		}
	}
	return false
}

func replayOther(t *testing.T, bind *Binding, c *Case, job *Job) []model.Violation {
	switch c.Engine {
	case "regsim":
		return replayRegsim(c)
	case "sorter":
		return replaySorter(c)
	case "linsim":
		if bind.Lin == nil {
			return nil
		}
		return replayLinsim(bind.Lin, c)
	}
	return nil
}
