package engine

import (
	"fmt"
	"math/rand/v2"
	"sync"

	"github.com/go-kid/ioc/util/list"
	"github.com/go-kid/ioc/util/sync2"
)

// utilStress puts the concurrent map and set utilities the registries are built on under real
// parallelism: four goroutines, released together, run seeded operation lists on one map, one
// string set and one generic set. There is no oracle of its own - linsim judges the histories -
// the race detector (and a crash of the process) is: a method that copies the container it is
// called on, or touches it outside its lock, shows here and nowhere in a cooperative schedule.
func utilStress(seed uint64) {
	m := sync2.New[string, int]()
	s := list.NewConcurrentSets()
	g := list.NewGenericConcurrentSets[string]()
	var wg sync.WaitGroup
	start := make(chan struct{})
	for w := 0; w < 4; w++ {
		wg.Add(1)
		r := rand.New(rand.NewPCG(seed, uint64(w)+1))
		go func() {
			defer wg.Done()
			<-start
			for i := 0; i < 150; i++ {
				k := fmt.Sprintf("k%d", r.IntN(6))
				v := i + 1
				switch r.IntN(12) {
				case 0:
					m.Store(k, v)
				case 1:
					m.Load(k)
				case 2:
					m.LoadOrStore(k, v)
				case 3:
					m.LoadOrStoreFn(k, func() int { return v })
				case 4:
					m.Delete(k)
				case 5:
					m.Range(func(string, int) bool { return true })
				case 6:
					s.Put(k)
				case 7:
					s.Exists(k)
					s.ExistsAny(k, "k0")
				case 8:
					s.Remove(k)
				case 9:
					s.ToArray()
					s.Length()
				case 10:
					g.Put(k)
					g.Exists(k)
				case 11:
					g.Remove(k)
					g.ToArray()
					g.Length()
				}
			}
		}()
	}
	close(start)
	wg.Wait()
}
