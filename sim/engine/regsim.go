package engine

import (
	"encoding/json"
	"errors"
	"fmt"
	"math/rand/v2"

	"github.com/go-kid/ioc/component_definition"
	"github.com/go-kid/ioc/container"
	"github.com/go-kid/ioc/container/support"

	"verifsim/model"
	"verifsim/simrt"
)

// regsim drives the real three-level singleton cache directly with generated creation
// trees: a create whose factory body is itself a sequence of the operations a factory can
// issue (register an early-reference factory, lookups with and without early references,
// in-creation queries, nested creates of other names) and then succeeds or fails. For every
// tree every position at which a create can fail is enumerated; after the root history the
// caller continues with lookups and re-creates. The recorded history is checked call by
// call against the reference state machine (model.CheckRegistryTrace).

type RegOp struct {
	Kind  string   `json:"k"` // addF | get | getE | inC | create | pub (the factory publishes its own name itself: AddSingleton)
	Name  string   `json:"n"`
	Child *RegNode `json:"c,omitempty"`
	// EarlyOther: the early-reference factory returns a different object than the final one
	EarlyOther bool `json:"eo,omitempty"`
	// EarlyFail: the early-reference factory returns an error
	EarlyFail bool `json:"ef,omitempty"`
	// Tolerate (get | getE | create): the factory body ignores an error of this operation and
	// carries on (user code that looks something up and copes with its absence)
	Tolerate bool `json:"tol,omitempty"`
	// Direct (create): get-or-create without looking the name up first
	Direct bool `json:"direct,omitempty"`
	// Other (pub): what the factory publishes under its own name meanwhile is an interim object,
	// not the one it completes with
	Other bool `json:"other,omitempty"`
}

type RegNode struct {
	ID   int     `json:"id"`
	Name string  `json:"n"`
	Ops  []RegOp `json:"ops,omitempty"`
}

type RegTree struct {
	Roots []*RegNode `json:"roots"`
	Names []string   `json:"names"`
	Nodes int        `json:"nodes"`
}

type regCase struct {
	Tree   *RegTree `json:"tree"`
	FailAt int      `json:"failAt"` // node id whose factory fails (-1: none)
	// FailPos: the failing factory fails after this many of its ops (-1: after all)
	FailPos int `json:"failPos"`
	// FailRef: the failing factory returns the object it was building together with its error
	FailRef bool `json:"failRef,omitempty"`
}

type dummyComp struct{ N string }

func genRegTree(r *rand.Rand) *RegTree {
	nNames := 1 + r.IntN(5)
	t := &RegTree{}
	for i := 0; i < nNames; i++ {
		t.Names = append(t.Names, fmt.Sprintf("n%d", i))
	}
	var gen func(name string, depth int, stack []string) *RegNode
	gen = func(name string, depth int, stack []string) *RegNode {
		n := &RegNode{ID: t.Nodes, Name: name}
		t.Nodes++
		stack = append(stack, name)
		if r.IntN(10) < 8 {
			n.Ops = append(n.Ops, RegOp{Kind: "addF", Name: name, EarlyOther: r.IntN(5) == 0, EarlyFail: r.IntN(12) == 0})
		}
		nOps := r.IntN(6)
		for i := 0; i < nOps; i++ {
			target := t.Names[r.IntN(len(t.Names))]
			tol := r.IntN(4) == 0
			switch x := r.IntN(10); {
			case x < 3:
				n.Ops = append(n.Ops, RegOp{Kind: "getE", Name: target, Tolerate: tol})
			case x < 5:
				n.Ops = append(n.Ops, RegOp{Kind: "get", Name: target, Tolerate: tol})
			case x < 6:
				if r.IntN(4) == 0 {
					// the factory publishes the object it is building under its own name itself
					n.Ops = append(n.Ops, RegOp{Kind: "pub", Name: name, Other: r.IntN(3) == 0})
				} else if r.IntN(3) == 0 {
					// the factory registers its early-reference factory once more (same product)
					n.Ops = append(n.Ops, RegOp{Kind: "addF", Name: name})
				} else {
					n.Ops = append(n.Ops, RegOp{Kind: "inC", Name: target})
				}
			default:
				// nested create of a name that is not on the creation stack (a factory first
				// looks the name up and only creates what is neither cached nor in creation)
				onStack := false
				for _, s := range stack {
					if s == target {
						onStack = true
					}
				}
				if onStack && depth < 4 && t.Nodes <= 12 && r.IntN(3) == 0 {
					// get-or-create of a name whose creation is under way (user code that does not look
					// the name up first): refused, the factory it brings along is never run
					n.Ops = append(n.Ops, RegOp{Kind: "create", Name: target, Child: gen(target, depth+1, stack), Tolerate: tol || r.IntN(2) == 0, Direct: r.IntN(2) == 0})
				} else if onStack || depth >= 4 || t.Nodes > 12 {
					n.Ops = append(n.Ops, RegOp{Kind: "getE", Name: target, Tolerate: tol})
				} else {
					n.Ops = append(n.Ops, RegOp{Kind: "create", Name: target, Child: gen(target, depth+1, stack), Tolerate: tol})
				}
			}
		}
		// the factory's own final check, as the real factory does it
		if r.IntN(2) == 0 {
			n.Ops = append(n.Ops, RegOp{Kind: "get", Name: name})
		}
		return n
	}
	nRoots := 1 + r.IntN(2)
	for i := 0; i < nRoots; i++ {
		t.Roots = append(t.Roots, gen(t.Names[r.IntN(len(t.Names))], 1, nil))
	}
	return t
}

var errRegInjected = errors.New("regsim: injected creation failure")

// runRegCase executes one (tree, failing node) history against a fresh real registry and
// returns the recorded calls.
func runRegCase(c *regCase) (calls []model.RegCall, panicMsg string) {
	ctx := simrt.NewCtx(simrt.NewReplay(nil))
	ctx.NoSched = true
	tr := simrt.NewTracer(support.DefaultSingletonComponentRegistry(), ctx)
	defer func() {
		if r := recover(); r != nil {
			panicMsg = fmt.Sprint(r)
		}
		for _, x := range tr.Calls {
			calls = append(calls, model.RegCall{Seq: x.Seq, Op: x.Op, Name: x.Name, Ref: x.Ref, Raw: x.Raw, Proxy: x.Proxy, Err: x.Err, Bool: x.Bool, Depth: x.Depth})
		}
	}()
	newMeta := func(name string) *component_definition.Meta {
		m := component_definition.NewMeta(&dummyComp{N: name})
		m.SetName(name)
		return m
	}
	var create func(n *RegNode, direct bool) (*component_definition.Meta, error)
	create = func(n *RegNode, direct bool) (*component_definition.Meta, error) {
		// like the real factory: look up first, create only when nothing is cached
		if m, err := tr.GetSingleton(n.Name, true); direct {
		} else if err != nil {
			return nil, err
		} else if m != nil {
			return m, nil
		}
		return tr.GetSingletonOrCreateByFactory(n.Name, container.FuncSingletonFactory(func() (*component_definition.Meta, error) {
			final := newMeta(n.Name)
			interim := false
			for i, op := range n.Ops {
				if c.FailAt == n.ID && c.FailPos == i {
					if c.FailRef {
						return final, errRegInjected
					}
					return nil, errRegInjected
				}
				switch op.Kind {
				case "addF":
					op := op
					tr.AddSingletonFactory(n.Name, container.FuncSingletonFactory(func() (*component_definition.Meta, error) {
						if op.EarlyFail {
							return nil, errRegInjected
						}
						if op.EarlyOther {
							return newMeta(n.Name), nil
						}
						return final, nil
					}))
				case "get":
					if _, err := tr.GetSingleton(op.Name, false); err != nil && !op.Tolerate {
						return nil, err
					}
				case "getE":
					if _, err := tr.GetSingleton(op.Name, true); err != nil && !op.Tolerate {
						return nil, err
					}
				case "inC":
					tr.IsSingletonCurrentlyInCreation(op.Name)
				case "pub":
					if op.Other {
						interim = true
						tr.AddSingleton(n.Name, newMeta(n.Name))
					} else {
						tr.AddSingleton(n.Name, final)
					}
				case "create":
					if _, err := create(op.Child, op.Direct); err != nil && !op.Tolerate {
						return nil, err
					}
				}
			}
			if c.FailAt == n.ID && (c.FailPos < 0 || c.FailPos >= len(n.Ops)) {
				if c.FailRef {
					return final, errRegInjected
				}
				return nil, errRegInjected
			}
			// like the real factory: adopt the early reference if one was handed out
			if early, err := tr.GetSingleton(n.Name, false); err == nil && early != nil && !interim {
				return early, nil
			}
			return final, nil
		}))
	}
	for _, root := range c.Tree.Roots {
		_, _ = create(root, false)
	}
	// continuation: lookups, re-creates, lookups
	for round := 0; round < 2; round++ {
		for _, name := range c.Tree.Names {
			_, _ = tr.GetSingleton(name, false)
			_, _ = tr.GetSingleton(name, true)
			tr.IsSingletonCurrentlyInCreation(name)
		}
		// direct get-or-create (no lookup first): a published name must come from the cache
		for _, name := range c.Tree.Names {
			name := name
			_, _ = tr.GetSingletonOrCreateByFactory(name, container.FuncSingletonFactory(func() (*component_definition.Meta, error) {
				return newMeta(name), nil
			}))
		}
		if round == 0 {
			saved := c.FailAt
			c.FailAt = -1
			for _, name := range c.Tree.Names {
				_, _ = create(&RegNode{ID: -2, Name: name, Ops: []RegOp{{Kind: "addF", Name: name}}}, false)
			}
			c.FailAt = saved
		}
	}
	return calls, ""
}

func judgeRegCase(c *regCase) []model.Violation {
	calls, pmsg := runRegCase(c)
	vs := model.CheckRegistryTrace(calls)
	if pmsg != "" {
		vs = append(vs, model.Violation{Property: "C04", Oracle: "registry-panic", Key: "", Detail: "the singleton cache panicked: " + pmsg})
	}
	return vs
}

// regsimBatch explores n trees from the seed, each with every failure position.
func regsimBatch(job *Job, n int, acc *statAcc, res *Result) {
	lane := uint64(0)
	if len(job.ProgIdx) != 0 {
		lane = uint64(job.ProgIdx[0]) // distinct per worker
	}
	r := rand.New(rand.NewPCG(job.Seed, 0x5e95+lane))
	for i := 0; i < n; i++ {
		progress(job, "regsim %d", i)
		tree := genRegTree(r)
		// collect nodes
		var nodes []*RegNode
		var walk func(x *RegNode)
		walk = func(x *RegNode) {
			nodes = append(nodes, x)
			for _, op := range x.Ops {
				if op.Child != nil {
					walk(op.Child)
				}
			}
		}
		for _, root := range tree.Roots {
			walk(root)
		}
		cases := []*regCase{{Tree: tree, FailAt: -1, FailPos: -1}}
		for _, nd := range nodes {
			for pos := -1; pos < len(nd.Ops); pos++ {
				cases = append(cases, &regCase{Tree: tree, FailAt: nd.ID, FailPos: pos, FailRef: pos >= 0 && (nd.ID+pos)%3 == 0})
				if pos == -1 {
					// a factory that fails at the very end hands back what it built, with the error
					cases = append(cases, &regCase{Tree: tree, FailAt: nd.ID, FailPos: pos, FailRef: true})
				}
			}
		}
		for _, c := range cases {
			calls, _ := runRegCase(c)
			acc.Runs++
			acc.Probes["regsim-histories"]++
			sig := uint64(0)
			early := false
			for _, x := range calls {
				sig = hash64(sig, x.Op, x.Name, x.Ref != 0, x.Err)
				if x.Op == "ef" {
					early = true
				}
			}
			acc.pathSigs[sig] = true
			if early || c.FailAt >= 0 {
				acc.NonTrivial++
				acc.distinct[hash64("regsim", sig)] = true
			}
			if c.FailAt >= 0 {
				acc.FaultArmed["create-fails"]++
				acc.FaultFired["create-fails"]++
			}
			vs := model.CheckRegistryTrace(calls)
			if len(vs) == 0 {
				continue
			}
			if len(res.Findings) < 6 {
				b, _ := json.Marshal(c)
				var extra map[string]any
				_ = json.Unmarshal(b, &extra)
				res.Findings = append(res.Findings, Finding{Violation: vs[0], Case: &Case{Property: "C04", Engine: "regsim", Extra: extra}, Reproduced: true, Observed: vs[0].Detail})
			}
		}
		if i == 0 && len(acc.Samples) < 4 {
			calls, _ := runRegCase(cases[len(cases)-1])
			if len(calls) > 24 {
				calls = calls[:24]
			}
			acc.Samples = append(acc.Samples, map[string]any{"engine": "regsim", "tree": tree, "failAt": cases[len(cases)-1].FailAt, "history_prefix": calls})
		}
	}
}

func replayRegsim(c *Case) []model.Violation {
	b, _ := json.Marshal(c.Extra)
	var rc regCase
	if err := json.Unmarshal(b, &rc); err != nil || rc.Tree == nil {
		return nil
	}
	return judgeRegCase(&rc)
}
