package engine

import (
	"encoding/json"
	"fmt"
	"math"
	"math/rand/v2"

	"github.com/go-kid/ioc/util/framework_helper"

	"verifsim/model"
)

// Direct driver of the generic sorter used at three call sites (C12): generated multisets
// of participants of the three classes with arbitrary Order values (ties, negatives,
// extremes), 0-40 participants, under permuted arrival orders.

type sortItem interface{ SortID() int }

type plainItem struct{ id int }
type ordItem struct{ id, o int }
type prioItem struct{ id, o int }

func (p *plainItem) SortID() int { return p.id }
func (p *ordItem) SortID() int   { return p.id }
func (p *ordItem) Order() int    { return p.o }
func (p *prioItem) SortID() int  { return p.id }
func (p *prioItem) Order() int   { return p.o }
func (p *prioItem) Priority()    {}

type markItem struct{ id int }

func (p *markItem) SortID() int { return p.id }
func (p *markItem) Priority()   {}

// mixItem: one named type whose value form is merely ordered (Order has a value receiver)
// while its pointer form is priority-ordered (Priority has a pointer receiver): the class of
// a participant is a matter of the dynamic value, not of the type's name.
type mixItem struct{ id, o int }

func (p mixItem) SortID() int { return p.id }
func (p mixItem) Order() int  { return p.o }
func (p *mixItem) Priority()  {}

type sortCase struct {
	Items [][3]int `json:"items"` // id, class (0 unordered, 1 ordered, 2 priority), order — in arrival order
}

func judgeSortCase(c *sortCase) []model.Violation {
	var in []sortItem
	cls := map[int]int{}
	ord := map[int]int{}
	for _, it := range c.Items {
		cls[it[0]], ord[it[0]] = it[1], it[2]
		switch it[1] {
		case 0:
			in = append(in, &plainItem{it[0]})
		case 1:
			in = append(in, &ordItem{it[0], it[2]})
		case 2:
			in = append(in, &prioItem{it[0], it[2]})
		case 3:
			in = append(in, &markItem{it[0]})
		case 4:
			in = append(in, mixItem{it[0], it[2]}) // value form: ordered
			cls[it[0]] = 1
		case 5:
			in = append(in, &mixItem{it[0], it[2]}) // pointer form: priority-ordered
			cls[it[0]] = 2
		}
	}
	var out []sortItem
	var pmsg string
	func() {
		defer func() {
			if r := recover(); r != nil {
				pmsg = fmt.Sprint(r)
			}
		}()
		out = framework_helper.SortOrderedComponents(in)
	}()
	var vs []model.Violation
	if pmsg != "" {
		return []model.Violation{{Property: "C12", Oracle: "sorter-panic", Detail: "SortOrderedComponents panicked: " + pmsg}}
	}
	seen := map[int]int{}
	var seq []string
	for _, x := range out {
		seen[x.SortID()]++
		seq = append(seq, fmt.Sprintf("%d[%s %d]", x.SortID(), []string{"unordered", "ordered", "priority", "priority-marker-only"}[cls[x.SortID()]], ord[x.SortID()]))
	}
	if len(out) != len(in) {
		vs = append(vs, model.Violation{Property: "C12", Oracle: "sorter-not-a-permutation", Detail: fmt.Sprintf("%d participants in, %d out: %v", len(in), len(out), seq)})
	}
	for _, it := range c.Items {
		if seen[it[0]] != 1 {
			vs = append(vs, model.Violation{Property: "C12", Oracle: "sorter-not-a-permutation", Detail: fmt.Sprintf("participant %d appears %d times in the result: %v", it[0], seen[it[0]], seq)})
			break
		}
	}
	rank := map[int]int{2: 0, 1: 1, 0: 2, 3: 2}
	for i := 1; i < len(out); i++ {
		a, b := out[i-1].SortID(), out[i].SortID()
		if rank[cls[a]] > rank[cls[b]] {
			vs = append(vs, model.Violation{Property: "C12", Oracle: "sorter-class-order", Detail: fmt.Sprintf("participant %d precedes %d against the class order: %v", a, b, seq)})
			break
		}
		if cls[a] == cls[b] && (cls[a] == 1 || cls[a] == 2) && ord[a] > ord[b] {
			vs = append(vs, model.Violation{Property: "C12", Oracle: "sorter-order-decreases", Detail: fmt.Sprintf("Order decreases from %d (participant %d) to %d (participant %d): %v", ord[a], a, ord[b], b, seq)})
			break
		}
	}
	return vs
}

func sorterBatch(job *Job, n int, acc *statAcc, res *Result) {
	lane := uint64(0)
	if len(job.ProgIdx) != 0 {
		lane = uint64(job.ProgIdx[0])
	}
	r := rand.New(rand.NewPCG(job.Seed, 0x50f7+lane))
	pool := []int{math.MinInt, math.MinInt + 1, -2147483648, -7, -1, 0, 0, 1, 1, 2, 5, 2147483647, math.MaxInt - 1, math.MaxInt}
	reported := map[string]bool{}
	for i := 0; i < n; i++ {
		c := &sortCase{}
		size := r.IntN(41)
		for j := 0; j < size; j++ {
			o := pool[r.IntN(len(pool))]
			if r.IntN(3) == 0 {
				o = r.IntN(7) - 3
			}
			cl := r.IntN(3)
			if r.IntN(8) == 0 {
				cl = 3
			}
			if r.IntN(8) == 0 {
				cl = 4 + r.IntN(2)
			}
			c.Items = append(c.Items, [3]int{j, cl, o})
		}
		r.Shuffle(len(c.Items), func(a, b int) { c.Items[a], c.Items[b] = c.Items[b], c.Items[a] })
		acc.Runs++
		acc.Probes["direct-sorter-cases"]++
		if size >= 2 {
			acc.NonTrivial++
			acc.distinct[hash64("sorter", fmt.Sprint(c.Items))] = true
		}
		for _, x := range judgeSortCase(c) {
			if reported[x.Oracle] {
				continue
			}
			reported[x.Oracle] = true
			// shrink: drop items while the same oracle persists
			best := c
			for changed := true; changed; {
				changed = false
				for k := 0; k < len(best.Items); k++ {
					cand := &sortCase{Items: append(append([][3]int(nil), best.Items[:k]...), best.Items[k+1:]...)}
					for _, y := range judgeSortCase(cand) {
						if y.Oracle == x.Oracle {
							best, changed = cand, true
							k--
							break
						}
					}
				}
			}
			b, _ := json.Marshal(best)
			var extra map[string]any
			_ = json.Unmarshal(b, &extra)
			v := x
			for _, y := range judgeSortCase(best) {
				if y.Oracle == x.Oracle {
					v = y
				}
			}
			res.Findings = append(res.Findings, Finding{Violation: v, Case: &Case{Property: "C12", Engine: "sorter", Extra: extra}, Reproduced: true, Observed: v.Detail,
				InstBefore: len(c.Items), InstAfter: len(best.Items)})
		}
	}
}

func replaySorter(c *Case) []model.Violation {
	b, _ := json.Marshal(c.Extra)
	var sc sortCase
	if json.Unmarshal(b, &sc) != nil {
		return nil
	}
	return judgeSortCase(&sc)
}
