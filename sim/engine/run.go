// Package engine runs one whole container life (NewApp -> options -> Run -> lookups ->
// continuation -> Close) of a generated program inside a testing/synctest bubble under the
// simulator's scheduler, and records what happened as a model.Obs.
package engine

import (
	"fmt"
	"github.com/go-kid/ioc/component_definition"
	"hash/fnv"
	"os"
	"path/filepath"
	"reflect"
	"sort"
	"strings"
	"sync/atomic"
	"testing"
	"testing/synctest"
	"time"
	"unsafe"

	"github.com/go-kid/ioc/app"
	"github.com/go-kid/ioc/configure"
	"github.com/go-kid/ioc/configure/loader"
	"github.com/go-kid/ioc/container"
	"github.com/go-kid/ioc/container/factory"
	"github.com/go-kid/ioc/container/support"
	"github.com/go-kid/ioc/definition"
	"github.com/go-kid/ioc/syslog"

	"verifsim/gen"
	"verifsim/model"
	"verifsim/sdl"
	"verifsim/simrt"
)

// Binding gives access to the generated types of the batch.
type Binding struct {
	Types  map[string]reflect.Type
	Ifaces map[string]reflect.Type
	// Lin gives access to the instrumented copies of the concurrent utilities (linsim).
	Lin *LinBinding
}

// RunSpec describes one simulated run.
type RunSpec struct {
	SpecData
	Prog      *sdl.Program
	KeepSites bool
	TmpDir    string
	// Quiesce, if set, is called at every quiescent point during the Close phase.
	Quiesce func(o *model.Obs, ctx *simrt.Ctx, closeReturned bool)
}

const (
	sentinelInt = 424242
	sentinelStr = "SENTINEL"
)

type env struct {
	spec     *RunSpec
	bind     *Binding
	ctx      *simrt.Ctx
	prog     *sdl.Program
	objs     map[string]any
	ptrID    map[ptrKey]string
	subs     map[string]any
	freshN   map[string]int
	lateDone map[string]bool
	hands    map[string]*simrt.Handle
	obs      *model.Obs
	names    map[string]string // registered name -> instance id (first owner)
	scans    map[string]*simrt.TagScanner
	// initLookups: holder -> "@init:<target id>" -> what the lookup from inside Init returned
	initLookups map[string]map[string][]string
	loaderHands map[string]*simrt.Handle
	procHands   map[string]*simrt.Handle
	theApp      *app.App
}

// ptrKey identifies an object by type and address (distinct zero-size components may share
// one address).
type ptrKey struct {
	t reflect.Type
	p uintptr
}

func keyOf(v reflect.Value) ptrKey { return ptrKey{v.Type(), v.Pointer()} }

func rw(v reflect.Value) reflect.Value {
	if !v.IsValid() {
		return v
	}
	if v.CanAddr() {
		return reflect.NewAt(v.Type(), unsafe.Pointer(v.UnsafeAddr())).Elem()
	}
	return v
}

// fieldAt walks the carrier chain from the component struct to the named field.
func fieldAt(obj any, typeName string, embed []string, field string) reflect.Value {
	cur := reflect.ValueOf(obj).Elem()
	for d := range embed {
		cur = rw(cur.FieldByName(gen.CarrierTypeName(typeName, embed, d)))
		if !cur.IsValid() {
			return cur
		}
	}
	return rw(cur.FieldByName(field))
}

func (e *env) idOf(v reflect.Value) string {
	switch v.Kind() {
	case reflect.Interface:
		if v.IsNil() {
			return ""
		}
		return e.idOf(v.Elem())
	case reflect.Pointer:
		if v.IsNil() {
			return ""
		}
		if id, ok := e.ptrID[keyOf(v)]; ok {
			return id
		}
		return "?" + v.Type().String()
	}
	return "?" + v.Type().String()
}

func (e *env) readPoint(obj any, typeName string, pt *sdl.Point) []string {
	v := fieldAt(obj, typeName, pt.Embed, pt.GoName())
	if !v.IsValid() {
		return []string{"?missing-field"}
	}
	out := []string{}
	switch v.Kind() {
	case reflect.Array:
		// (an array-typed field is never an injection point: empty entries are what it is made of)
		for i := 0; i < v.Len(); i++ {
			if id := e.idOf(v.Index(i)); id != "" {
				out = append(out, id)
			}
		}
	case reflect.Slice:
		for i := 0; i < v.Len(); i++ {
			id := e.idOf(v.Index(i))
			if id == "" {
				id = "<nil>"
			}
			out = append(out, id)
		}
	default:
		if id := e.idOf(v); id != "" {
			out = append(out, id)
		}
	}
	return out
}

func (e *env) wiringOf(id string) map[string][]string {
	inst := e.prog.InstByID(id)
	t := e.prog.TypeByName(inst.Type)
	m := map[string][]string{}
	for _, pt := range t.Points {
		m[pt.Field] = e.readPoint(e.objs[id], t.Name, pt)
	}
	return m
}

func (e *env) cfgOf(id string) map[string]string {
	inst := e.prog.InstByID(id)
	t := e.prog.TypeByName(inst.Type)
	if len(t.Config) == 0 {
		return nil
	}
	m := map[string]string{}
	for _, cf := range t.Config {
		v := fieldAt(e.objs[id], t.Name, cf.Embed, cf.Field)
		if v.IsValid() {
			m[cf.Field] = fmt.Sprint(v.Interface())
		}
	}
	return m
}

func (e *env) newObject(typeName string, h *simrt.Handle) any {
	typ, ok := e.bind.Types[typeName]
	if !ok {
		panic("engine: unknown generated type " + typeName)
	}
	v := reflect.New(typ)
	t := e.prog.TypeByName(typeName)
	if t.Zero {
		e.ptrID[keyOf(v)] = h.ID
		return v.Interface()
	}
	v.Elem().FieldByName("Sim").Set(reflect.ValueOf(h))
	if f := v.Elem().FieldByName("OrdH"); f.IsValid() && f.CanSet() {
		f.Set(reflect.ValueOf(h)) // the order mix-in answers with the handle's order
	}
	for _, fr := range t.Frame {
		for _, f := range e.frameLeaves(v.Interface(), t, fr) {
			switch f.Kind() {
			case reflect.Int:
				f.SetInt(sentinelInt)
			case reflect.String:
				f.SetString(sentinelStr)
			}
		}
	}
	for _, cu := range t.Custom {
		f := fieldAt(v.Interface(), t.Name, cu.Embed, cu.Field)
		if f.IsValid() && f.Kind() == reflect.Int {
			f.SetInt(sentinelInt)
		}
		if f.IsValid() && cu.Anon {
			f.Field(0).SetInt(sentinelInt)
		}
	}
	e.ptrID[keyOf(v)] = h.ID
	e.hands[h.ID] = h
	return v.Interface()
}

// frameLeaves returns the leaf values a frame field guards.
func (e *env) frameLeaves(obj any, t *sdl.Type, fr *sdl.Frame) []reflect.Value {
	top := reflect.ValueOf(obj).Elem()
	switch fr.Kind {
	case "untagged", "unexported", "foreign", "lookalike":
		return []reflect.Value{rw(top.FieldByName(fr.Field))}
	case "named":
		return []reflect.Value{rw(rw(top.FieldByName(fr.Field)).FieldByName("X"))}
	case "taggedEmbed":
		return []reflect.Value{rw(rw(top.FieldByName(t.Name + "G" + fr.Field)).FieldByName("X" + fr.Field))}
	case "prefixer":
		f := rw(top.FieldByName(fr.Field))
		f.FieldByName("Section").SetString("sim.sub")
		return []reflect.Value{f.FieldByName("A")}
	case "ptrEmbed":
		return []reflect.Value{rw(top.FieldByName(t.Name + "Q" + fr.Field))}
	case "ptrEmbedSet":
		// the embedded pointer already points at an object of the application's own
		p := rw(top.FieldByName(t.Name + "Q" + fr.Field))
		if p.IsNil() {
			p.Set(reflect.New(p.Type().Elem()))
		}
		return []reflect.Value{rw(p.Elem().FieldByName("Y" + fr.Field))}
	}
	return nil
}

func (e *env) checkFrame(id string) []string {
	inst := e.prog.InstByID(id)
	t := e.prog.TypeByName(inst.Type)
	obj := e.objs[id]
	var bad []string
	if t.Zero {
		return nil
	}
	if h := reflect.ValueOf(obj).Elem().FieldByName("Sim"); h.IsNil() || h.Interface().(*simrt.Handle) != e.hands[id] {
		bad = append(bad, id+".Sim (untagged handle) was modified")
	}
	for _, fr := range t.Frame {
		for _, f := range e.frameLeaves(obj, t, fr) {
			ok := true
			switch f.Kind() {
			case reflect.Int:
				ok = f.Int() == sentinelInt
			case reflect.String:
				ok = f.String() == sentinelStr
			case reflect.Pointer, reflect.Interface, reflect.Slice:
				ok = f.IsNil()
			}
			if !ok {
				bad = append(bad, fmt.Sprintf("%s.%s (%s frame field) was modified", id, fr.Field, fr.Kind))
			}
		}
	}
	for _, cu := range t.Custom {
		f := fieldAt(obj, t.Name, cu.Embed, cu.Field)
		if f.IsValid() && f.Kind() == reflect.Int && f.Int() != sentinelInt {
			bad = append(bad, fmt.Sprintf("%s.%s (custom-tagged field) was modified", id, cu.Field))
		}
		if f.IsValid() && cu.Anon && f.Field(0).Int() != sentinelInt {
			bad = append(bad, fmt.Sprintf("%s.%s (custom-tagged anonymous struct field) was modified", id, cu.Field))
		}
	}
	return bad
}

// substitute returns (creating on first use) the substitute object of a slot.
func (e *env) substitute(slot string, target *sdl.Instance, subType string, cur any) any {
	if s, ok := e.subs[slot]; ok {
		return s
	}
	if subType == "" {
		subType = target.Type
	}
	if sdl.IsDeco(subType) {
		// a decorator around the object the callback was given (when that is the component itself)
		typ := e.bind.Types[subType]
		if cv := reflect.ValueOf(cur); typ != nil && cv.IsValid() && cv.Type() == typ.Field(0).Type {
			v := reflect.New(typ)
			v.Elem().Field(0).Set(cv)
			e.ptrID[keyOf(v)] = "sub:" + slot
			e.subs[slot] = v.Interface()
			return v.Interface()
		}
		subType = target.Type
	}
	// all substitutes of one component are structurally identical (same handle content): what
	// tells two versions apart is the object's identity, never its content
	h := &simrt.Handle{ID: "sub-of:" + target.ID, Alias: target.Alias, Qual: target.Qual, Kind: target.Kind, Ord: target.Order, C: e.ctx}
	s := e.newObject(subType, h)
	if v := reflect.ValueOf(s); v.Kind() == reflect.Pointer {
		e.ptrID[keyOf(v)] = "sub:" + slot
	}
	e.subs[slot] = s
	return s
}

func yamlDoc(doc map[string]any, indent string, b *strings.Builder) {
	for _, k := range sdl.SortedKeys(doc) {
		switch v := doc[k].(type) {
		case map[string]any:
			fmt.Fprintf(b, "%s%s:\n", indent, k)
			yamlDoc(v, indent+"  ", b)
		case string:
			if v != strings.TrimSpace(v) {
				fmt.Fprintf(b, "%s%s: %q\n", indent, k, v) // blanks at the ends are part of the value
			} else {
				fmt.Fprintf(b, "%s%s: %s\n", indent, k, v)
			}
		default:
			fmt.Fprintf(b, "%s%s: %v\n", indent, k, v)
		}
	}
}

// YAML renders a document (nested maps with scalar leaves).
func YAML(doc map[string]any) []byte {
	var b strings.Builder
	yamlDoc(doc, "", &b)
	return []byte(b.String())
}

func flatten(prefix string, doc map[string]any, out map[string]string) {
	for _, k := range sdl.SortedKeys(doc) {
		p := k
		if prefix != "" {
			p = prefix + "." + k
		}
		switch v := doc[k].(type) {
		case map[string]any:
			flatten(p, v, out)
		default:
			out[p] = fmt.Sprint(v)
		}
	}
}

// Flatten turns a document into path -> formatted scalar.
func Flatten(doc map[string]any) map[string]string {
	out := map[string]string{}
	flatten("", doc, out)
	return out
}

func (e *env) buildLoader(s *sdl.Source) configure.Loader {
	data := YAML(s.Doc)
	switch s.Fault {
	case "empty":
		data = nil
	case "garbage":
		data = []byte("a: [1, 2\n  b: {{{\n\t- :")
	}
	switch s.Kind {
	case "raw":
		return loader.NewRawLoader(data)
	case "file":
		path := filepath.Join(e.spec.TmpDir, e.prog.ID+"-"+s.ID+".yaml")
		switch s.Fault {
		case "missing":
			path = filepath.Join(e.spec.TmpDir, "does-not-exist-"+s.ID+".yaml")
		case "isdir":
			path = e.spec.TmpDir
		default:
			if err := os.WriteFile(path, data, 0o644); err != nil {
				panic(err)
			}
		}
		return loader.NewFileLoader(path)
	case "args":
		argv := []string{"prog", "-test.run=x"}
		flat := Flatten(s.Doc)
		for _, k := range sdl.SortedKeys(flat) {
			argv = append(argv, "--app.config="+k+"="+flat[k])
		}
		return loader.NewArgsLoader(argv)
	case "sim":
		h := &simrt.Handle{ID: s.ID, C: e.ctx}
		e.loaderHands[s.ID] = h
		if s.Fault == "error" {
			e.ctx.Armed["load:"+s.ID+"#*"] = true
		}
		if s.Doc2 != nil {
			h.Data2 = YAML(s.Doc2)
		}
		// a bootstrap loader: from inside its first LoadConfig it registers the loaders it spawns
		var spawned []*sdl.Source
		for _, o := range e.prog.Sources {
			if o.SpawnedBy == s.ID && o.Late {
				spawned = append(spawned, o)
			}
		}
		if len(spawned) != 0 {
			done := false
			h.LoaderHook = func() {
				if done || e.theApp == nil {
					return
				}
				done = true
				var ls []configure.Loader
				for _, o := range spawned {
					ls = append(ls, e.buildLoader(o))
				}
				e.ctx.Log("spawn-loaders", s.ID, "")
				e.theApp.Configure.AddLoaders(ls...)
			}
		}
		if s.ByValue && (s.OrderClass == "ordered" || s.OrderClass == "priority") && len(spawned) == 0 && s.Doc2 == nil {
			h.Ord = s.Order
			if s.OrderClass == "priority" {
				return simrt.ValLoaderP{ValLoaderO: simrt.ValLoaderO{H: h, Data: data}}
			}
			return simrt.ValLoaderO{H: h, Data: data}
		}
		return simrt.NewSimLoader(s.OrderClass, s.Order, simrt.SimLoader{H: h, Data: data})
	}
	panic("unknown source kind " + s.Kind)
}

func (e *env) sourceOption(ss ...*sdl.Source) app.SettingOption {
	s := ss[0]
	if s.Kind == "file" && s.Via == "SetConfig" && len(ss) == 1 {
		l := e.buildLoader(s).(loader.FileLoader)
		return app.SetConfig(string(l))
	}
	var ls []configure.Loader
	for _, x := range ss {
		ls = append(ls, e.buildLoader(x))
	}
	switch s.Via {
	case "SetConfigLoader":
		return app.SetConfigLoader(ls...)
	case "AddConfigLoader":
		return app.AddConfigLoader(ls...)
	case "AddLoaders", "SetConfig":
		return func(a *app.App) { a.Configure.AddLoaders(ls...) }
	}
	panic("unknown source via " + s.Via)
}

// configOptions builds the configuration options of the program: one option per source, or
// one per group of sources.
func (e *env) configOptions() []app.SettingOption {
	p := e.prog
	opts := []app.SettingOption{app.SetConfigLoader()}
	var early []*sdl.Source
	for _, s := range p.Sources {
		if !s.Late {
			early = append(early, s)
		}
	}
	for i := 0; i < len(early); {
		j := i + 1
		if early[i].Group != 0 {
			for j < len(early) && early[j].Group == early[i].Group && early[j].Via == early[i].Via {
				j++
			}
		}
		opts = append(opts, e.sourceOption(early[i:j]...))
		i = j
	}
	return opts
}

// Run executes one simulated run. It must be called from a test (synctest needs *testing.T).
func Run(t *testing.T, bind *Binding, spec *RunSpec) (obs *model.Obs) {
	// (named result: the deferred recover below must not turn the result into nil)
	obs = &model.Obs{ProgID: spec.Prog.ID, Seed: spec.Seed, Faults: spec.Faults, Sched: spec.Sched}
	var ch *simrt.Chooser
	if spec.Replay {
		ch = simrt.NewReplay(spec.Picks)
	} else {
		ch = simrt.NewSeeded(spec.Seed)
	}
	ch.KeepSites = spec.KeepSites
	ctx := simrt.NewCtx(ch)
	ctx.Parallel = spec.Parallel
	if len(spec.Faults) != 0 {
		// the shape of the injected errors is a function of the fault plan (replayable)
		ctx.ErrShape = int(hash64("err-shape", strings.Join(spec.Faults, ","), spec.Prog.Seed) % simrt.ErrShapes)
	}
	ctx.NoSched = spec.Parallel && spec.Free
	// event budget: generous multiple of what a start of this size needs (a fault-free
	// start logs a few dozen events per component)
	nc := len(spec.Prog.Instances) + len(spec.Prog.Procs) + len(spec.Prog.Scanners) + 12
	ctx.EventBudget = 20000 + 40*nc*nc + 2000*nc
	for _, f := range spec.Faults {
		ctx.Armed[f] = true
	}
	e := &env{spec: spec, bind: bind, ctx: ctx, prog: spec.Prog, objs: map[string]any{}, ptrID: map[ptrKey]string{},
		subs: map[string]any{}, freshN: map[string]int{}, lateDone: map[string]bool{}, hands: map[string]*simrt.Handle{}, obs: obs, names: map[string]string{}, scans: map[string]*simrt.TagScanner{}, initLookups: map[string]map[string][]string{}, loaderHands: map[string]*simrt.Handle{}, procHands: map[string]*simrt.Handle{}}
	syslog.SetLogger(simrt.SilentLogger{})
	simrt.FormatLogs = spec.Parallel
	if spec.Parallel && StockLoggerProgram(spec.Prog) {
		// what the container's goroutines log concurrently goes through the library's own logger
		// (syslog caches the logger per prefix for the life of the process: the driver gives one
		// worker process programs of one parity only)
		syslog.SetLogger(syslog.New(syslog.LvError))
		ctx.StockLog = true
	}

	defer func() {
		// the bubble ends with a deadlock panic if goroutines stay blocked
		if r := recover(); r != nil {
			obs.Stuck = true
			if obs.Panic == "" {
				obs.Panic = "bubble: " + fmt.Sprint(r)
			}
		}
	}()
	synctest.Test(t, func(t *testing.T) {
		closeReturned := false
		inClose := false
		res := ctx.Drive(func() { e.main(&inClose, &closeReturned) }, func(done bool) {
			if inClose {
				snap := model.CloseSnap{Entered: map[string]int{}, Exited: map[string]int{}, Returned: closeReturned}
				for _, site := range ctx.ParkedSites() {
					if strings.HasPrefix(site, "close:") {
						snap.Parked = append(snap.Parked, strings.TrimPrefix(site, "close:"))
					}
					if strings.HasPrefix(site, "close-start:") {
						snap.Starting = append(snap.Starting, strings.TrimPrefix(site, "close-start:"))
					}
				}
				for _, ev := range ctx.Events() {
					switch ev.Kind {
					case "close-enter":
						snap.Entered[ev.Subj]++
					case "close-exit":
						snap.Exited[ev.Subj]++
					}
				}
				if len(obs.CloseSnaps) < 64 {
					obs.CloseSnaps = append(obs.CloseSnaps, snap)
				}
				if spec.Quiesce != nil {
					spec.Quiesce(obs, ctx, closeReturned)
				}
			}
		})
		obs.CloseReturned = closeReturned
		obs.Stuck = res.Stuck
		obs.OverSteps = res.OverSteps
		if res.Panic != "" && obs.Panic == "" {
			obs.Panic = "harness main task: " + res.Panic
			obs.PanicStk = res.PanicStk
		}
	})
	if ctx.OverBudget {
		obs.OverSteps = true
	}
	obs.Steps = ctx.Steps
	obs.Picks = ch.Picks()
	if !spec.Parallel {
		for _, ev := range ctx.Events() {
			if strings.HasPrefix(ev.Kind, "reg:") {
				continue
			}
			obs.Events = append(obs.Events, model.Ev{Seq: ev.Seq, Kind: ev.Kind, Subj: ev.Subj, Detail: ev.Detail})
		}
		obs.Sites = ctx.Sites()
		fired := ctx.Fired()
		obs.Fired = sdl.SortedKeys(fired)
	}
	obs.SleptS = int(ctx.Slept / time.Second)
	obs.MaxParked = ctx.MaxParked
	obs.Contended = ctx.Contended
	obs.DupSite = ctx.DupSite
	return obs
}

func (e *env) main(inClose, closeReturned *bool) {
	spec, ctx, obs, p := e.spec, e.ctx, e.obs, e.prog
	ch := ctx.Ch
	// order modes
	modes := [3]int{spec.ForceOrd, spec.ForceOrd, spec.ForceOrd}
	if spec.ForceOrd < 0 {
		for i := range modes {
			modes[i] = ch.Choose("ord-mode", simrt.OrdModes)
		}
	}
	obs.OrdModes = modes
	ordS := simrt.NewOrderer(ctx, modes[0])
	ordM := simrt.NewOrderer(ctx, modes[1])
	ordP := simrt.NewOrderer(ctx, modes[2])
	reg := &simrt.OrderedSingletonRegistry{Inner: support.NewRegistry(), Ord: ordS}
	def := &simrt.OrderedDefinitionRegistry{Inner: support.DefaultDefinitionRegistry(), Ord: ordM, C: ctx}
	tracer := simrt.NewTracer(support.DefaultSingletonComponentRegistry(), ctx)
	fac := factory.VerifNew(def, tracer)
	undo := simrt.InstallPropertyOrder(ordP)
	defer undo()
	// hook H3: goroutines started by App.Close park before they invoke their closer
	app.VerifCloseYield = func(m definition.CloserComponent) {
		id := "?"
		if v := reflect.ValueOf(m); v.Kind() == reflect.Pointer {
			if x, ok := e.ptrID[keyOf(v)]; ok {
				id = x
			}
		}
		ctx.Yield("close-start:" + id)
	}
	defer func() { app.VerifCloseYield = nil }()
	// hook H4: goroutines of the parallel scanning phase park before they do anything
	// (only one processor's round is active at a time, so the component name is a unique key)
	factory.VerifScanYield = func(name string) { ctx.Yield("scan-start:" + name) }
	defer func() { factory.VerifScanYield = nil }()

	// environment objects
	var comps []any
	var compIDs []string
	var theApp *app.App
	var contributed []any
	simrt.Cur, simrt.ZeroIDs = ctx, map[string]string{}
	for _, inst := range p.Instances {
		inst := inst
		h := &simrt.Handle{ID: inst.ID, Alias: inst.Alias, Qual: inst.Qual, Kind: inst.Kind, Ord: inst.Order, C: ctx}
		if tt := p.TypeByName(inst.Type); inst.OrderRaw != nil && (tt.Init || tt.APS) && !spec.Parallel {
			final := inst.Order
			h.Ord, h.OrdFinal = *inst.OrderRaw, &final
		}
		var lateDefs []*sdl.Instance
		for _, other := range p.Instances {
			if other.Contributed && other.ContribBy == inst.ID {
				lateDefs = append(lateDefs, other)
			}
		}
		if len(inst.InitLookups) != 0 || inst.SetKey != "" || len(lateDefs) != 0 {
			h.LookupFn = func(h *simrt.Handle) error {
				for _, other := range lateDefs {
					if o := e.objs[other.ID]; o != nil && !e.lateDone[other.ID] {
						e.lateDone[other.ID] = true
						ctx.Log("late-definition", inst.ID, other.ID)
						def.RegisterMeta(component_definition.NewMeta(o))
					}
				}
				if inst.SetKey != "" && theApp != nil {
					ctx.Log("init-set", inst.ID, inst.SetKey)
					theApp.Configure.Set(inst.SetKey, inst.SetVal)
				}
				for _, tid := range inst.InitLookups {
					tgt := p.InstByID(tid)
					if tgt == nil || theApp == nil {
						continue
					}
					ctx.Log("init-lookup", inst.ID, tid)
					c, err := theApp.GetComponentByName(p.NameOf(tgt))
					got := []string{}
					if err == nil && c != nil {
						got = append(got, e.idOf(reflect.ValueOf(c)))
					}
					if e.initLookups[inst.ID] == nil {
						e.initLookups[inst.ID] = map[string][]string{}
					}
					e.initLookups[inst.ID][tid] = got
					if err != nil && !inst.Tolerant {
						return err
					}
					if err != nil {
						ctx.Log("init-lookup-tolerated", inst.ID, tid)
					}
				}
				return nil
			}
		}
		o := e.newObject(inst.Type, h)
		e.objs[inst.ID] = o
		if _, dup := e.names[p.NameOf(inst)]; !dup {
			e.names[p.NameOf(inst)] = inst.ID
		}
		if p.TypeByName(inst.Type).Zero {
			simrt.ZeroIDs[inst.Type] = inst.ID
		}
		if inst.Contributed && inst.ContribBy != "" {
			continue // registered later, from the initialization callback of ContribBy
		}
		if inst.Contributed {
			contributed = append(contributed, o)
			continue
		}
		comps = append(comps, o)
		compIDs = append(compIDs, inst.ID)
	}
	if len(contributed) != 0 {
		h := &simrt.Handle{ID: "contrib", Alias: "contrib", C: ctx}
		comps = append(comps, &simrt.Contributor{H: h, Objs: contributed})
		compIDs = append(compIDs, "contrib")
	}
	byName := map[string]*sdl.Instance{}
	for _, inst := range p.Instances {
		if _, ok := byName[p.NameOf(inst)]; !ok {
			byName[p.NameOf(inst)] = inst
		}
	}
	for _, pr := range p.Procs {
		pr := pr
		h := &simrt.Handle{ID: pr.ID, Alias: pr.ID, Ord: pr.Order, C: ctx}
		e.procHands[pr.ID] = h
		core := simrt.ProcCore{H: h, PropsOK: pr.Props, PropsRet: pr.PropsRet}
		core.Resolve = func(proc, cb, name string, cur any) any {
			tgt := byName[name]
			if tgt == nil {
				// the component of another processor: replaced by an object that is no processor
				for _, r := range pr.Rules {
					if r.Target == name && r.At == cb && r.Action == "substitute" && p.ProcByID(name) != nil {
						if s, ok := e.subs[r.Sub]; ok {
							return s
						}
						s := &simrt.Mark{M: 1}
						e.ptrID[keyOf(reflect.ValueOf(s))] = "sub:" + r.Sub
						e.subs[r.Sub] = s
						return s
					}
				}
				return nil
			}
			for _, r := range pr.Rules {
				if r.Target == tgt.ID && r.At == cb && r.Action == "substitute" {
					if r.Fresh {
						e.freshN[r.Sub]++
						if n := e.freshN[r.Sub]; n > 1 {
							return e.substitute(fmt.Sprintf("%s#%d", r.Sub, n), tgt, r.SubType, cur)
						}
					}
					return e.substitute(r.Sub, tgt, r.SubType, cur)
				}
				if r.Target == tgt.ID && r.At == cb && r.Action == "self" && cb == sdl.CbBeforeInst {
					return cur // the registered instance itself: creation is short-circuited
				}
			}
			return nil
		}
		core.Act = func(proc, cb, name string) error {
			tgt := byName[name]
			if tgt == nil || theApp == nil {
				return nil
			}
			for _, r := range pr.Rules {
				if r.Target == tgt.ID && r.At == cb && r.Action == "lookup" {
					if other := p.InstByID(r.Sub); other != nil {
						ctx.Log("proc-lookup", pr.ID+"@"+name, r.Sub)
						if _, err := theApp.GetComponentByName(p.NameOf(other)); err != nil {
							if !r.Tolerant {
								return err
							}
							ctx.Log("proc-lookup-tolerated", pr.ID+"@"+name, r.Sub)
						}
					}
				}
			}
			return nil
		}
		var pc any
		if pr.Lazy {
			pc = simrt.NewLazyProc(pr.Class, pr.OrderClass, pr.Order, core)
		} else {
			pc = simrt.NewProc(pr.Class, pr.OrderClass, pr.Order, core)
		}
		if pr.OrderRaw != nil {
			final := pr.Order
			h.Ord, h.OrdFinal = *pr.OrderRaw, &final
		}
		comps = append(comps, pc)
		compIDs = append(compIDs, pr.ID)
	}
	for _, sc := range p.Scanners {
		h := &simrt.Handle{ID: sc.ID, Alias: sc.ID, C: ctx}
		s := simrt.NewTagScanner(h, sc.Tag, sc.NodeType, sc.Handler)
		s.Inventory = sc.Inventory
		s.Narrow = sc.Narrow
		e.scans[sc.ID] = s
		comps = append(comps, s)
		compIDs = append(compIDs, sc.ID)
	}
	if len(p.Scanners) != 0 {
		for _, id := range p.Refuse {
			if inst := p.InstByID(id); inst != nil {
				ctx.Armed["scan:"+p.Scanners[0].ID+"@"+p.NameOf(inst)+"#*"] = true
			}
		}
	}
	// configuration holders that name their own section: the application creates them
	for _, inst := range p.Instances {
		t := p.TypeByName(inst.Type)
		if t.Zero || t.Local {
			continue
		}
		for _, cf := range t.Config {
			if cf.Menu != "typePrefixDyn" {
				continue
			}
			if f := fieldAt(e.objs[inst.ID], t.Name, cf.Embed, cf.Field); f.IsValid() && f.CanSet() {
				f.Set(reflect.ValueOf(&simrt.CfgPD{Section: cf.Keys[0]}))
			}
		}
	}
	// scalar configuration fields the application has given a value before Run
	for _, inst := range p.Instances {
		t := p.TypeByName(inst.Type)
		if !inst.PresetCfg || t.Zero || t.Local {
			continue
		}
		for _, cf := range t.Config {
			f := fieldAt(e.objs[inst.ID], t.Name, cf.Embed, cf.Field)
			if !f.IsValid() || !f.CanSet() || cf.Anon {
				continue
			}
			switch {
			case cf.GoType == "int" && f.Kind() == reflect.Int:
				f.SetInt(model.PresetInt)
			case cf.GoType == "string" && f.Kind() == reflect.String:
				f.SetString(model.PresetStr)
			}
		}
	}
	// hand-wired points: the application has set them to the raw target before Run
	{
		w := model.NewWorld(p, EffectiveCfg(p))
		for _, inst := range p.Instances {
			t := p.TypeByName(inst.Type)
			if !inst.Prewired || t.Zero {
				continue
			}
			for _, pt := range t.Points {
				if !pt.Single() {
					continue
				}
				r := w.Resolve(inst, pt)
				if r.Exact == "" || r.DontCare || e.objs[r.Exact] == nil {
					continue
				}
				f := fieldAt(e.objs[inst.ID], t.Name, pt.Embed, pt.GoName())
				tv := reflect.ValueOf(e.objs[r.Exact])
				if f.IsValid() && tv.Type().AssignableTo(f.Type()) {
					f.Set(tv)
				}
			}
		}
	}
	// fields the application filled itself before Run
	{
		w := model.NewWorld(p, EffectiveCfg(p))
		for _, inst := range p.Instances {
			t := p.TypeByName(inst.Type)
			if t.Zero || !(inst.Preset || inst.Prefilled || inst.Fallback) {
				continue
			}
			for _, pt := range t.Points {
				if pt.GoField != "" {
					continue
				}
				r := w.Resolve(inst, pt)
				f := fieldAt(e.objs[inst.ID], t.Name, pt.Embed, pt.GoName())
				if !f.IsValid() || !f.CanSet() {
					continue
				}
				key := inst.ID + "." + pt.Field
				fallback := inst.Fallback && pt.Single() && !r.Empty() && !r.Foreign
				if fallback || inst.Preset && pt.Single() && pt.Optional && r.Empty() && !r.SelfOnly {
					// an object of a fitting type that is not a component
					tn := pt.Target
					if pt.Kind != sdl.KPtr {
						tn = ""
						for _, c := range p.Types {
							if !c.Zero && !sdl.IsAlt(c.Name) && (pt.Kind == sdl.KAny || hasIfaceIdx(c, pt.Iface)) {
								tn = c.Name
								break
							}
						}
					}
					if tn == "" || sdl.IsAlt(tn) || p.TypeByName(tn) == nil || p.TypeByName(tn).Zero {
						continue
					}
					h := &simrt.Handle{ID: "preset:" + key, Alias: "preset", C: ctx}
					obj := reflect.ValueOf(e.newObject(tn, h))
					if obj.Type().AssignableTo(f.Type()) {
						f.Set(obj)
						if fallback {
							if obs.Fallbacks == nil {
								obs.Fallbacks = map[string]string{}
							}
							obs.Fallbacks[key] = "preset:" + key
						}
						if !fallback {
							// (a fallback is replaced by the container; a preset of an unsatisfiable
							// optional point must still be there afterwards)
							if obs.Presets == nil {
								obs.Presets = map[string]string{}
							}
							obs.Presets[key] = "preset:" + key
						}
					}
				}
				if inst.Prefilled && !pt.Single() && len(r.Cands) != 0 && !t.Lazy && f.Kind() == reflect.Slice {
					if tgt := e.objs[r.Cands[0]]; tgt != nil && reflect.TypeOf(tgt).AssignableTo(f.Type().Elem()) {
						f.Set(reflect.Append(reflect.MakeSlice(f.Type(), 0, 1), reflect.ValueOf(tgt)))
					}
				}
			}
		}
	}
	// registration order
	var perm []int
	if spec.ForceOrd == simrt.OrdReversed {
		for i := len(comps) - 1; i >= 0; i-- {
			perm = append(perm, i)
		}
	} else if spec.ForceOrd == simrt.OrdCanonical {
		for i := range comps {
			perm = append(perm, i)
		}
	} else {
		perm = ch.Perm("reg-perm", len(comps))
	}
	ordered := make([]any, len(comps))
	for i, k := range perm {
		ordered[i] = comps[k]
		if p.InstByID(compIDs[k]) != nil {
			obs.RegOrder = append(obs.RegOrder, compIDs[k])
		}
	}

	// snapshot hook
	obs.AtBefore = map[string]map[string][]string{}
	obs.CfgAtBefore = map[string]map[string]string{}
	if !spec.Parallel {
		ctx.Hook = func(kind, subj string, obj any) {
			// the first moment of a component's initialization: its first before-initialization
			// callback, or (without user processors) its AfterPropertiesSet / Init
			if (kind != "before" && kind != "aps" && kind != "init") || obj == nil {
				return
			}
			v := reflect.ValueOf(obj)
			if v.Kind() != reflect.Pointer {
				return
			}
			id, ok := e.ptrID[keyOf(v)]
			if !ok || e.prog.InstByID(id) == nil {
				return
			}
			if _, seen := obs.AtBefore[id]; seen {
				return
			}
			obs.AtBefore[id] = e.wiringOf(id)
			if c := e.cfgOf(id); c != nil {
				obs.CfgAtBefore[id] = c
			}
		}
	}

	// start from an empty loader list so that the process's own argv plays no role
	cfgOpts := e.configOptions()
	if p.Warmup && !spec.Parallel {
		// another container built from the very same option values comes first
		func() {
			defer func() { _ = recover() }()
			ctx.Log("warmup", "", "")
			w := app.NewApp()
			wopts := append([]app.SettingOption{app.SetRegistry(support.NewRegistry()), app.SetFactory(factory.Default())}, cfgOpts...)
			_ = w.Run(wopts...)
			ctx.Log("warmup-done", "", "")
		}()
	}
	a := app.NewApp()
	theApp = a
	e.theApp = a
	opts := []app.SettingOption{app.SetRegistry(reg), app.SetFactory(fac)}
	opts = append(opts, cfgOpts...)
	opts = append(opts, app.SetComponents(ordered...))

	var runErr error
	func() {
		defer func() {
			if r := recover(); r != nil {
				obs.Panic = fmt.Sprint(r)
				obs.PanicStk = simrt.ShortStack()
				if strings.Contains(obs.Panic, "register duplicated component") {
					obs.RegPanic = true
				}
			}
		}()
		runErr = a.Run(opts...)
	}()
	if runErr != nil {
		obs.RunErr = true
		obs.ErrText = firstLine(runErr.Error())
	}
	if obs.RegPanic {
		// the application recovered the rejection: who owns the names now?
		obs.RegOwner = map[string]string{}
		func() {
			defer func() { _ = recover() }()
			names := reg.GetSingletonNames()
			sort.Strings(names)
			for _, n := range names {
				if c, err := reg.GetSingleton(n); err == nil && c != nil {
					obs.RegOwner[n] = e.idOf(reflect.ValueOf(c))
				}
			}
		}()
	}
	if ctx.OverBudget {
		// the run exceeded its event budget (non-termination): no further phases
		ctx.Quiet = true
		spec = &RunSpec{SpecData: spec.SpecData, Prog: spec.Prog, TmpDir: spec.TmpDir}
		spec.Lookups, spec.Continue, spec.Close = false, false, false
	}
	obs.EndOfRun = ctx.Log("end-of-run", "", "")
	if len(e.procHands) != 0 && !spec.Parallel {
		obs.FactorySeen = map[string][2]int{}
		for _, id := range sdl.SortedKeys(e.procHands) {
			obs.FactorySeen[id] = [2]int{e.procHands[id].SeenComponents, e.procHands[id].SeenScanners}
		}
	}

	if !spec.Parallel {
		for _, id := range sdl.SortedKeys(e.hands) {
			if n := atomic.LoadInt32(&e.hands[id].KindCalls); n != 0 && p.InstByID(id) != nil {
				if obs.KindCalls == nil {
					obs.KindCalls = map[string]int{}
				}
				obs.KindCalls[id] = int(n)
			}
		}
	}
	// observations
	obs.Points = map[string]map[string][]string{}
	obs.Cfg = map[string]map[string]string{}
	for _, inst := range p.Instances {
		obs.Points[inst.ID] = e.wiringOf(inst.ID)
		if l := e.initLookups[inst.ID]; l != nil {
			if obs.InitLookups == nil {
				obs.InitLookups = map[string]map[string][]string{}
			}
			obs.InitLookups[inst.ID] = l
		}
		if c := e.cfgOf(inst.ID); c != nil {
			obs.Cfg[inst.ID] = c
		}
		obs.Frame = append(obs.Frame, e.checkFrame(inst.ID)...)
	}
	if len(spec.GetPaths) != 0 {
		obs.Get = map[string]string{}
		for _, path := range spec.GetPaths {
			obs.Get[path] = fmt.Sprint(a.Get(path))
		}
	}
	// reload: late sources are added and the configuration is initialised a second time
	if obs.Panic == "" && !obs.RunErr && !ctx.OverBudget {
		var late []configure.Loader
		again := false
		for _, s := range p.Sources {
			if s.Late && s.SpawnedBy == "" {
				late = append(late, e.buildLoader(s))
			}
			again = again || s.Late || s.Doc2 != nil
		}
		if again {
			ctx.Log("reload", "", "")
			func() {
				defer func() {
					if r := recover(); r != nil {
						obs.ReloadErr = "panic: " + fmt.Sprint(r)
					}
				}()
				if len(late) != 0 {
					a.Configure.AddLoaders(late...)
				}
				// loaders whose order is settled late answer with it from now on (all sources are
				// registered by now; the configuration has not been initialised again yet)
				for _, s := range p.Sources {
					if h := e.loaderHands[s.ID]; h != nil && s.Order2 != nil {
						h.Ord = *s.Order2
					}
					if h := e.loaderHands[s.ID]; h != nil && s.Doc2 != nil {
						h.Data2Active = true // the source's content has changed
					}
				}
				if err := a.Configure.Initialize(); err != nil {
					obs.ReloadErr = firstLine(err.Error())
				}
			}()
			obs.Get2 = map[string]string{}
			for _, path := range spec.GetPaths {
				obs.Get2[path] = fmt.Sprint(a.Get(path))
			}
		}
	}
	if len(e.scans) != 0 {
		obs.TagRecords = map[string][]model.TagRec{}
		for _, id := range sdl.SortedKeys(e.scans) {
			recs := []model.TagRec{}
			for _, r := range e.scans[id].Records {
				recs = append(recs, model.TagRec{Comp: r.Comp, Field: r.Field, Holder: r.Holder, Val: r.Val, Args: r.Args})
			}
			obs.TagRecords[id] = recs
		}
	}
	obs.NonCanonical = ordS.NonCanonical + ordM.NonCanonical
	obs.PropsNonCan = ordP.NonCanonical

	lookup := func(inst *sdl.Instance) model.LookupObs {
		var lo model.LookupObs
		if ctx.OverBudget {
			lo.Panic = "event budget exceeded"
			return lo
		}
		func() {
			defer func() {
				if r := recover(); r != nil {
					lo.Panic = fmt.Sprint(r)
				}
			}()
			c, err := a.GetComponentByName(p.NameOf(inst))
			if err != nil {
				lo.Err = true
				return
			}
			if c != nil {
				lo.Target = e.idOf(reflect.ValueOf(c))
			}
		}()
		return lo
	}

	// logger-tagged fields
	for _, inst := range p.Instances {
		t := p.TypeByName(inst.Type)
		if !t.Logger {
			continue
		}
		if obs.LoggerSet == nil {
			obs.LoggerSet = map[string]bool{}
		}
		f := fieldAt(e.objs[inst.ID], t.Name, t.LogEmbed, "Log")
		obs.LoggerSet[inst.ID] = f.IsValid() && !f.IsNil()
		if t.Logger2 != "" {
			prefOf := func(v reflect.Value) string {
				if v.IsValid() && !v.IsNil() {
					if l, ok := v.Interface().(simrt.SilentLogger); ok {
						return l.P
					}
					return "?" + v.Elem().Type().String()
				}
				return "<nil>"
			}
			if obs.LoggerPref == nil {
				obs.LoggerPref = map[string][2]string{}
			}
			obs.LoggerPref[inst.ID] = [2]string{prefOf(f), prefOf(fieldAt(e.objs[inst.ID], t.Name, t.LogEmbed, "Log2"))}
		}
	}
	if obs.Panic == "" && !obs.RunErr && spec.Lookups && e.bind.Ifaces != nil && !ctx.OverBudget {
		// lookups by interface through the factory's query API
		obs.ByIface = map[string][]string{}
		obs.ByIfaceErr = map[string]bool{}
		for k := 0; k < p.NIfaces; k++ {
			name := gen.IfaceName(p, k)
			it, ok := e.bind.Ifaces[name]
			if !ok {
				continue
			}
			func() {
				defer func() {
					if r := recover(); r != nil {
						obs.ByIfaceErr[name] = true
					}
				}()
				ctx.Log("iface-query", name, fmt.Sprint(k))
				cs, err := a.GetComponents(container.InterfaceType(it))
				ctx.Log("iface-query-done", name, fmt.Sprint(k))
				if err != nil {
					obs.ByIfaceErr[name] = true
					return
				}
				ids := []string{}
				for _, c := range cs {
					ids = append(ids, e.idOf(reflect.ValueOf(c)))
				}
				obs.ByIface[name] = ids
			}()
		}
	}
	if obs.Panic == "" && !obs.RunErr && spec.Lookups {
		obs.Lookup = map[string]model.LookupObs{}
		for _, inst := range p.Instances {
			if e.names[p.NameOf(inst)] != inst.ID {
				continue
			}
			obs.Lookup[inst.ID] = lookup(inst)
		}
		// wiring of the components these lookups created
		{
			during := model.NewWorld(p, EffectiveCfg(p)).Created(obs)
			for _, inst := range p.Instances {
				if l, ok := obs.Lookup[inst.ID]; ok && !during[inst.ID] && !l.Err && l.Panic == "" && l.Target != "" && !p.TypeByName(inst.Type).Zero {
					if obs.PointsLate == nil {
						obs.PointsLate = map[string]map[string][]string{}
					}
					obs.PointsLate[inst.ID] = e.wiringOf(inst.ID)
				}
			}
		}
		// configuration fields of lazy components (created by the lookups above at the latest)
		for _, inst := range p.Instances {
			if p.TypeByName(inst.Type).Lazy {
				if c := e.cfgOf(inst.ID); c != nil {
					if obs.CfgLate == nil {
						obs.CfgLate = map[string]map[string]string{}
					}
					obs.CfgLate[inst.ID] = c
				}
			}
		}
		if p.PostSetKey != "" {
			ctx.Log("post-set", p.PostSetKey, "")
			a.Configure.Set(p.PostSetKey, p.PostSetVal)
			obs.Lookup2 = map[string]model.LookupObs{}
			obs.CfgLate2 = map[string]map[string]string{}
			for _, inst := range p.Instances {
				if !p.TypeByName(inst.Type).Lazy || e.names[p.NameOf(inst)] != inst.ID {
					continue
				}
				obs.Lookup2[inst.ID] = lookup(inst)
				if c := e.cfgOf(inst.ID); c != nil {
					obs.CfgLate2[inst.ID] = c
				}
			}
		}
	}
	if obs.Panic == "" && obs.RunErr && spec.Continue {
		if spec.ClearFaults {
			for k := range ctx.Armed {
				delete(ctx.Armed, k)
			}
		}
		for round := 0; round < 2; round++ {
			for _, inst := range p.Instances {
				if e.names[p.NameOf(inst)] != inst.ID {
					continue
				}
				co := model.ContObs{Inst: inst.ID, Round: round, SeqFrom: ctx.Seq()}
				lo := lookup(inst)
				co.Target, co.Err, co.Panic = lo.Target, lo.Err, lo.Panic
				co.SeqTo = ctx.Seq()
				co.Points = e.wiringOf(inst.ID)
				co.InCreation = tracer.Inner.IsSingletonCurrentlyInCreation(p.NameOf(inst))
				obs.Cont = append(obs.Cont, co)
			}
		}
	}
	runnerFailed := false
	if spec.CloseAfterRunnerFailure && obs.RunErr {
		for site := range ctx.Fired() {
			runnerFailed = runnerFailed || strings.HasPrefix(site, "run:")
		}
	}
	refreshedOK := false
	if spec.RetryRefresh && obs.RunErr && obs.Panic == "" && !ctx.OverBudget {
		// the failure was a passing one: the application tries the refresh once more
		func() {
			defer func() {
				if r := recover(); r != nil {
					obs.Panic = "retried refresh: " + fmt.Sprint(r)
				}
			}()
			ctx.Log("retry-refresh", "", "")
			if err := a.Refresh(); err == nil {
				refreshedOK = true
				ctx.Log("retry-refresh-ok", "", "")
			}
		}()
	}
	if obs.Panic == "" && (!obs.RunErr || runnerFailed || refreshedOK) && spec.Close {
		ctx.Log("close-call", "", "")
		ctx.TimeMayPass = true // closers may be slow: seconds of simulated time may pass while they are parked
		*inClose = true
		a.Close()
		*closeReturned = true
		if spec.Parallel {
			// shutdown is over: the application goes on using its closers
			for _, id := range sdl.SortedKeys(e.hands) {
				e.hands[id].Touch()
			}
		}
		ctx.Log("close-return", "", "")
	}

	// registry trace (all phases)
	h := fnv.New64a()
	for _, c := range tracer.Calls {
		obs.Reg = append(obs.Reg, model.RegCall{Seq: c.Seq, Op: c.Op, Name: c.Name, Ref: c.Ref, Raw: c.Raw, Proxy: c.Proxy, Err: c.Err, Bool: c.Bool, Depth: c.Depth})
		if c.Seq <= obs.EndOfRun || obs.EndOfRun <= 0 {
			fmt.Fprintf(h, "%s|%s|%t|%t;", c.Op, c.Name, c.Ref != 0, c.Err)
		}
	}
	obs.PathSig = h.Sum64()
	_ = sort.Strings
}

// StockLoggerProgram: racesim runs of programs with an odd index keep the library's own logger
// (error level, stderr) instead of the silent one.
func StockLoggerProgram(p *sdl.Program) bool {
	n := 0
	for _, c := range p.ID {
		if c >= '0' && c <= '9' {
			n = n*10 + int(c-'0')
		}
	}
	return n%2 == 1
}

func firstLine(s string) string {
	if i := strings.IndexByte(s, '\n'); i >= 0 {
		s = s[:i]
	}
	if len(s) > 300 {
		s = s[:300]
	}
	return s
}

func hasIfaceIdx(t *sdl.Type, k int) bool {
	for _, x := range t.Ifaces {
		if x == k {
			return true
		}
	}
	return false
}
