// Package sdl is the scenario description language: one Program describes the component
// types (compiled), the instances and their runtime attributes, user post-processors with
// their rule tables, custom tag scanners and configuration sources of one simulated
// container life. It is pure data (JSON-serialisable) and imports nothing from go-kid/ioc.
package sdl

import (
	"encoding/json"
	"sort"
	"strings"
)

// PkgPath is the import path of the generated package; default component names are
// PkgPath + "/" + type name.
const PkgPath = "verifbatch/progs"

// AltPkgPath is a second generated package with the SAME package name ("progs"): a type
// whose SDL name ends in AltSuffix is emitted there under the Go name of its main-package
// namesake, so that two distinct types share their short name "progs.<Name>".
const (
	AltPkgPath = "verifbatch/alt/progs"
	AltSuffix  = "_alt"
)

// IsAlt reports whether the SDL type name denotes a type of the alt package.
func IsAlt(typeName string) bool { return strings.HasSuffix(typeName, AltSuffix) }

// GoTypeName is the (unqualified) Go name of the type.
func GoTypeName(typeName string) string { return strings.TrimSuffix(typeName, AltSuffix) }

type Program struct {
	ID      string `json:"id"`
	Seed    uint64 `json:"seed"`
	Family  string `json:"family"`
	NIfaces int    `json:"nifaces"`
	// Sealed: indices of interfaces that also have unexported methods (declared in the
	// interface package; implementers obtain them by embedding that package's base struct).
	Sealed    []int       `json:"sealed,omitempty"`
	Types     []*Type     `json:"types"`
	Instances []*Instance `json:"instances"`
	Procs     []*Proc     `json:"procs,omitempty"`
	Scanners  []*Scanner  `json:"scanners,omitempty"`
	Sources   []*Source   `json:"sources,omitempty"`
	// PostSetKey / PostSetVal: after Run and a first round of by-name lookups the application
	// changes this configuration key (Configure.Set) and looks every lazy component up again.
	PostSetKey string `json:"postSetKey,omitempty"`
	PostSetVal int    `json:"postSetVal,omitempty"`
	// Refuse: instance ids whose definition the first custom scanner refuses, every time (its
	// PostProcessDefinitionRegistry returns an error for them): part of the program, not a
	// fault plan - start-up must be refused under every schedule of the scanning phase.
	Refuse []string `json:"refuse,omitempty"`
	// Warmup: before the container under observation is built, another container is started
	// from the very same configuration option values (option values are reused across containers).
	Warmup bool `json:"warmup,omitempty"`
	// Twin: id of the program this one is an embedded re-arrangement of (C11).
	Twin string `json:"twin,omitempty"`
	// Notes for humans (corpus name etc).
	Note string `json:"note,omitempty"`
}

type Type struct {
	Name    string `json:"name"`
	Ifaces  []int  `json:"ifaces,omitempty"`
	Init    bool   `json:"init,omitempty"`
	APS     bool   `json:"aps,omitempty"`
	Qual    bool   `json:"qual,omitempty"`
	Primary bool   `json:"primary,omitempty"`
	Lazy    bool   `json:"lazy,omitempty"`
	Role    string `json:"role,omitempty"` // "", "runner", "closer"
	// AlsoCloser (with Role "runner"): the runner is a closer component as well.
	AlsoCloser bool `json:"alsoCloser,omitempty"`
	// OrderMixin (with an order class): Order() is not declared by the type but promoted from an
	// embedded mix-in struct, and the Priority marker from the embedded definition.PriorityComponent.
	OrderMixin bool     `json:"orderMixin,omitempty"`
	OrderClass string   `json:"orderClass,omitempty"` // "", "ordered", "priority"
	Funcs      []string `json:"funcs,omitempty"`      // result-less methods
	HasKind    bool     `json:"hasKind,omitempty"`    // Kind() string
	// Logger: the type has a field `Log syslog.Logger` tagged `logger:""` (inside the given
	// carrier chain); the container must set it.
	Logger   bool     `json:"logger,omitempty"`
	LogEmbed []string `json:"logEmbed,omitempty"`
	// Logger2 (with Logger): a second logger field `Log2` in the same place, tagged with this
	// explicit prefix; Log2First: it is declared in front of `Log`.
	Logger2   string `json:"logger2,omitempty"`
	Log2First bool   `json:"log2First,omitempty"`
	// Proc: the component is itself an (unordered, observing) ComponentPostProcessor.
	Proc bool `json:"proc,omitempty"`
	// FactoryPP / DefRegPP: the component is also a component-factory post-processor /
	// a definition-registry post-processor (and nothing else: an ordinary component with a hook).
	FactoryPP bool `json:"factoryPP,omitempty"`
	DefRegPP  bool `json:"defRegPP,omitempty"`
	// Zero: a field-less (zero-size) provider type: no handle, no custom name, one instance.
	// Distinct zero-size components may share one address.
	Zero bool `json:"zero,omitempty"`
	// Scalar (with Zero): the type is not a struct at all but a named scalar (`type T int32`);
	// a pointer to it is as legal a component as a pointer to a struct.
	Scalar bool `json:"scalar,omitempty"`
	// Local: the type is declared inside a function under the Go name "Local" (every such type
	// of the batch has the same package path and the same name, though they are distinct
	// types); it has no fields of its own and gets its behaviour (role "", "runner" or
	// "closer", a custom name) from an embedded base struct. Its instances need custom names.
	Local bool `json:"local,omitempty"`
	// Mixin (with Local): the type also embeds a function-local struct named "Mixin" - "empty":
	// without fields; "log": with an exported logger-tagged field `Log` (Logger is set too).
	Mixin  string    `json:"mixin,omitempty"`
	Points []*Point  `json:"points,omitempty"`
	Frame  []*Frame  `json:"frame,omitempty"`
	Config []*Conf   `json:"config,omitempty"`
	Custom []*Custom `json:"custom,omitempty"`
}

// Point kinds.
const (
	KPtr    = "ptr"    // *T
	KIface  = "iface"  // Ij
	KPtrs   = "ptrs"   // []*T
	KIfaces = "ifaces" // []Ij
	KAny    = "any"    // any
	KAnys   = "anys"   // []any
	KApp    = "app"    // *app.App: the container's own application component, by type
	KArr    = "arr"    // [2]Ij: a fixed-size array of an interface type (no component is ever a candidate)
)

// Selectors.
const (
	SelType = "type"
	SelName = "name"
	SelFunc = "func"
)

type Point struct {
	Field    string   `json:"field"`
	Kind     string   `json:"kind"`
	Target   string   `json:"target,omitempty"` // type name for ptr kinds
	Iface    int      `json:"iface,omitempty"`  // interface index for iface kinds
	Sel      string   `json:"sel"`
	Name     string   `json:"name,omitempty"` // by-name: requested name (literal or ${key}); func: method name
	Returns  []string `json:"returns,omitempty"`
	Optional bool     `json:"optional,omitempty"`
	Quals    []string `json:"quals,omitempty"`
	Embed    []string `json:"embed,omitempty"` // carrier chain; element starting lower-case = unexported carrier; element starting with "S" = a carrier type shared between several positions; "P0" = a carrier whose type has a value-receiver Prefix() string method
	GoField  string   `json:"goField,omitempty"`
	// Anon (kind iface): the point is an embedded (anonymous) interface field that itself
	// carries the tag; its Go field name (GoField) is the interface's type name.
	Anon bool `json:"anon,omitempty"`
}

// Custom is a field carrying a custom tag (C11): a user-supplied tag scanner must receive
// exactly the exported ones, with value and arguments.
type Custom struct {
	Field    string     `json:"field"`
	Tag      string     `json:"tag"`
	Val      string     `json:"val"`
	Args     [][]string `json:"args,omitempty"` // each: name, values...
	Embed    []string   `json:"embed,omitempty"`
	Exported bool       `json:"exported"`
	// Via: "" = the field carries the scanner's tag; "both" = it additionally carries the tag
	// `<tag>h` which the scanner's extract handler recognises (the tag lookup wins, one
	// property); "handler" = it carries only `<tag>h` (value and arguments are taken from it,
	// and only a scanner that has a handler receives the field).
	Via string `json:"via,omitempty"`
	// Anon: the tagged field is itself an anonymous by-value struct field (`simrt.Mark`,
	// Field == "Mark"): it carries a tag, so it is a field to process, not a carrier.
	Anon bool `json:"anon,omitempty"`
}

// GoName is the Go field name of the point (Field is its unique key within the type; two
// points may share one Go field name when they live in a carrier type that is embedded at
// two positions).
func (p *Point) GoName() string {
	if p.GoField != "" {
		return p.GoField
	}
	return p.Field
}

func (p *Point) Single() bool {
	return p.Kind == KPtr || p.Kind == KIface || p.Kind == KAny || p.Kind == KApp
}

// Frame fields must never be written by the container.
type Frame struct {
	Field string `json:"field"`
	// Kind: "untagged" (exported, no tag), "unexported" (carries a wire tag but unexported),
	// "foreign" (exported, json tag), "named" (inside a named, i.e. non-anonymous struct field),
	// "taggedEmbed" (inside an anonymous embedded struct that itself carries a tag),
	// "ptrEmbed" (inside an anonymous embedded *struct that is nil), "ptrEmbedSet" (the same,
	// but the pointer already points at an object when the component is registered),
	// "lookalike" (foreign tags that merely contain a recognised tag name).
	Kind   string `json:"kind"`
	GoType string `json:"goType"` // "int", "string", or "*<Type>" / "I<k>"
	Target string `json:"target,omitempty"`
}

// Conf is a configuration field from the fixed menu.
type Conf struct {
	Field string `json:"field"`
	// Menu: "value" value:"${k}", "valueDef" value:"${k:def}", "prop" prop:"k",
	// "sum" value:"#{${k1}+${k2}}", "mul" value:"#{${k1}*${k2}}", "sumDef" value:"#{${k1:d}+${k2}}",
	// "sumDef2" value:"#{${k1:d1}+${k2:d2}}", "prefixInt" prefix:"k" on int,
	// "prefixStruct" prefix:"k" on a struct{A int; B string}, "literal" value:"<lit>"
	Menu     string   `json:"menu"`
	Keys     []string `json:"keys,omitempty"`
	Default  string   `json:"default,omitempty"`
	Default2 string   `json:"default2,omitempty"` // default of the second placeholder (menu "sumDef2")
	GoType   string   `json:"goType"`             // "int" | "string" | "struct"
	Validate string   `json:"validate,omitempty"`
	Optional bool     `json:"optional,omitempty"`
	Embed    []string `json:"embed,omitempty"`
	// Also: the same field additionally carries this custom tag (two recognised tags on one field).
	Also *Custom `json:"also,omitempty"`
	// Anon: a prefix-bound struct declared as a tagged anonymous field (`simrt.CfgAB`,
	// Field == "CfgAB").
	Anon bool `json:"anon,omitempty"`
}

type Instance struct {
	ID    string `json:"id"`
	Type  string `json:"type"`
	Alias string `json:"alias,omitempty"`
	Qual  string `json:"qual,omitempty"`
	Order int    `json:"order,omitempty"`
	// OrderRaw: what Order() answers until the instance's own initialization callback (Init /
	// AfterPropertiesSet) has run - a component that works out its order while it initialises.
	// Order is what it answers from then on, i.e. whenever the container sequences it.
	OrderRaw *int   `json:"orderRaw,omitempty"`
	Kind     string `json:"kindv,omitempty"`
	// InitLookups: instance ids this instance looks up by name (App.GetComponentByName) from
	// inside its Init / AfterPropertiesSet callback - a dependency cycle can be closed during
	// initialization, not only during population.
	InitLookups []string `json:"initLookups,omitempty"`
	// Prewired: before Run the application itself has already set the instance's
	// single-valued points whose target is determined to the (raw) target object.
	Prewired bool `json:"prewired,omitempty"`
	// Contributed: the instance is not registered with the container; a definition-registry
	// post-processor contributes its definition (DefinitionRegistry.RegisterMeta) during the
	// scanning phase. Only for types without points / configuration fields.
	Contributed bool `json:"contributed,omitempty"`
	// ContribBy (with Contributed): the definition is not contributed during the scanning phase
	// but registered programmatically (DefinitionRegistry.RegisterMeta) from inside the
	// initialization callback of this other instance, i.e. while the container is refreshing.
	ContribBy string `json:"contribBy,omitempty"`
	// Tolerant: the instance's initialization callback copes with a failing lookup (the error
	// of an InitLookups entry is ignored): a creation that failed inside such a lookup may be
	// attempted again later in the same start.
	Tolerant bool `json:"tolerant,omitempty"`
	// Preset: before Run the application itself has put an object of its own (not a registered
	// component) into every optional single-valued point of the instance that cannot be
	// satisfied; the container must leave such a field untouched.
	Preset bool `json:"preset,omitempty"`
	// Fallback: before Run the application has put a fallback object of its own (no registered
	// component) into the instance's satisfiable single-valued points; the container replaces it.
	Fallback bool `json:"fallback,omitempty"`
	// Prefilled: before Run the instance's slice points already hold one of their candidates.
	Prefilled bool `json:"prefilled,omitempty"`
	// PresetCfg: before Run the application itself has given the instance's scalar configuration
	// fields a value (int fields 7, string fields "vp"); a field for which nothing is bound
	// (optional, key absent, no default) keeps it - and it is what validation sees.
	PresetCfg bool `json:"presetCfg,omitempty"`
	// SetKey / SetVal: from inside its Init / AfterPropertiesSet callback the instance changes
	// the configuration (Configure.Set(SetKey, SetVal)): components created later see the new value.
	SetKey string `json:"setKey,omitempty"`
	SetVal int    `json:"setVal,omitempty"`
}

// Proc is a user post-processor instance (one of nine static harness types).
type Proc struct {
	ID         string `json:"id"`
	Class      string `json:"class"`                // "plain" | "inst" | "smart"
	OrderClass string `json:"orderClass,omitempty"` // "", "ordered", "priority"
	Order      int    `json:"order,omitempty"`
	// OrderRaw: what Order() answers until the processor's PostProcessComponentFactory hook has
	// run (a processor that settles its order there, e.g. from the configuration).
	OrderRaw *int    `json:"orderRaw,omitempty"`
	Rules    []*Rule `json:"rules,omitempty"`
	// Props: PostProcessAfterInstantiation returns true (so PostProcessProperties is called).
	Props bool `json:"props,omitempty"`
	// Lazy: the processor itself is marked LazyInit (like the container's own processors).
	Lazy bool `json:"lazy,omitempty"`
	// PropsRet: what PostProcessProperties returns next to a nil error: "" nil, "empty" a
	// non-nil empty list, "same" the list it was given, "inplace" the list it was given compacted
	// in place to every second element (the result carries no meaning, and the list is the
	// processor's to scribble on).
	PropsRet string `json:"propsRet,omitempty"`
}

// Callback names used in rules, events and fault sites.
const (
	CbBefore     = "before"
	CbAfter      = "after"
	CbEarly      = "early"
	CbBeforeInst = "beforeInst"
	CbAfterInst  = "afterInst"
	CbProps      = "props"
)

type Rule struct {
	Target string `json:"target"` // instance id
	At     string `json:"at"`
	// Action: "substitute" | "self" (beforeInst only: answer with the registered instance itself)
	// | "lookup" (the processor looks the instance named by Sub up through the container from
	// inside the callback; afterInst / props / before / after)
	Action string `json:"action"`
	Sub    string `json:"sub"` // substitute slot name: rules that share Sub return the same object
	// SubType: type of the substitute object ("" = the component's own type). A wrapper of
	// another type may implement interfaces the component itself does not.
	SubType string `json:"subType,omitempty"`
	// Fresh: every invocation of the rule wraps anew (object ids "sub:<slot>#<n>", n >= 2 from
	// the second invocation on). A callback runs once per component and start, so this only
	// shows when the container invokes a callback more often than it should.
	Fresh bool `json:"fresh,omitempty"`
	// Tolerant (lookup): the processor copes with an error of the look-up and carries on
	Tolerant bool `json:"tolerant,omitempty"`
}

type Scanner struct {
	ID  string `json:"id"`
	Tag string `json:"tag"`
	// NodeType: "" = a property type of its own; "Configuration" = the scanner files its
	// properties under the built-in configuration property type.
	NodeType string `json:"nodeType,omitempty"`
	// Handler: besides its tag the scanner recognises fields through an extract handler
	// (fields carrying the struct tag `<tag>h`).
	Handler bool `json:"handler,omitempty"`
	// Inventory: after scanning a component the scanner reads the list of all properties the
	// definition holds so far (observation only).
	Inventory bool `json:"inventory,omitempty"`
	// Narrow: PostProcessProperties answers with a fresh list of just the properties that carry
	// the scanner's tag (the container ignores what a processor answers with)
	Narrow bool `json:"narrow,omitempty"`
}

type Source struct {
	ID   string `json:"id"`
	Kind string `json:"kind"` // "raw" | "file" | "args" | "sim"
	Via  string `json:"via"`  // "SetConfigLoader" | "AddConfigLoader" | "SetConfig" | "AddLoaders"
	// OrderClass/Order for "sim" loaders.
	OrderClass string `json:"orderClass,omitempty"`
	Order      int    `json:"order,omitempty"`
	// Order2: what the ("sim") loader's Order() answers once Run has returned, i.e. when the
	// configuration is initialised a second time (a loader whose order is settled late).
	Order2 *int           `json:"order2,omitempty"`
	Doc    map[string]any `json:"doc,omitempty"`
	// Fault: "", "error", "empty", "garbage", "missing", "isdir"
	Fault string `json:"fault,omitempty"`
	// Group: consecutive sources with the same non-zero Group and the same Via are passed to
	// ONE option call (e.g. SetConfigLoader(l1, l2)).
	Group int `json:"group,omitempty"`
	// Late: the source is added (Configure.AddLoaders) after Run and the configuration is
	// initialised a second time (reload).
	Late bool `json:"late,omitempty"`
	// SpawnedBy (with Late, kind "sim"): the source is not added by the application after Run but
	// by this other simulated loader, from inside its LoadConfig (a bootstrap loader that
	// registers further loaders while the configuration is being initialised); it takes part
	// from the next initialisation on.
	SpawnedBy string `json:"spawnedBy,omitempty"`
	// ByValue (kind "sim", ordered / priority): the loader is handed over by value, and its type
	// is not hashable (a struct with a slice in it).
	ByValue bool `json:"byValue,omitempty"`
	// Doc2 (kind "sim"): what the loader supplies from the second initialisation on (a source
	// whose content changes while the container lives).
	Doc2 map[string]any `json:"doc2,omitempty"`
}

func (p *Program) TypeByName(n string) *Type {
	for _, t := range p.Types {
		if t.Name == n {
			return t
		}
	}
	return nil
}

func (p *Program) InstByID(id string) *Instance {
	for _, i := range p.Instances {
		if i.ID == id {
			return i
		}
	}
	return nil
}

// DefaultName is the container's default name for an unnamed instance of type t.
func DefaultName(typeName string) string {
	if IsAlt(typeName) {
		return AltPkgPath + "/" + GoTypeName(typeName)
	}
	return PkgPath + "/" + typeName
}

// NameOf is the name under which the instance is registered.
func (p *Program) NameOf(i *Instance) string {
	if i.Alias != "" {
		return i.Alias
	}
	return DefaultName(i.Type)
}

// RemoveInstance drops the instance and everything that only makes sense with it: definitions
// it would have registered programmatically, lookups of it, processor rules about it.
func (p *Program) RemoveInstance(id string) {
	gone := map[string]bool{id: true}
	for changed := true; changed; {
		changed = false
		for _, i := range p.Instances {
			if !gone[i.ID] && i.ContribBy != "" && gone[i.ContribBy] {
				gone[i.ID] = true
				changed = true
			}
		}
	}
	var keep []*Instance
	for _, i := range p.Instances {
		if gone[i.ID] {
			continue
		}
		var ls []string
		for _, l := range i.InitLookups {
			if !gone[l] {
				ls = append(ls, l)
			}
		}
		i.InitLookups = ls
		keep = append(keep, i)
	}
	p.Instances = keep
	var rf []string
	for _, id := range p.Refuse {
		if !gone[id] {
			rf = append(rf, id)
		}
	}
	p.Refuse = rf
	for _, pr := range p.Procs {
		var rs []*Rule
		for _, r := range pr.Rules {
			if gone[r.Target] || (r.Action == "lookup" && gone[r.Sub]) {
				continue
			}
			rs = append(rs, r)
		}
		pr.Rules = rs
	}
}

func (p *Program) Clone() *Program {
	b, _ := json.Marshal(p)
	var q Program
	_ = json.Unmarshal(b, &q)
	return &q
}

func (p *Program) JSON() string {
	b, _ := json.Marshal(p)
	return string(b)
}

// SortedKeys returns the keys of a map in sorted order (the harness never ranges over a
// map without sorting).
func SortedKeys[V any](m map[string]V) []string {
	ks := make([]string, 0, len(m))
	for k := range m {
		ks = append(ks, k)
	}
	sort.Strings(ks)
	return ks
}

// ByNameCount is the number of instances registered under the name.
func (p *Program) ByNameCount(name string) int {
	n := 0
	for _, i := range p.Instances {
		if p.NameOf(i) == name {
			n++
		}
	}
	return n
}

// IsSealed reports whether interface k of the program has unexported methods.
func (p *Program) IsSealed(k int) bool {
	for _, x := range p.Sealed {
		if x == k {
			return true
		}
	}
	return false
}

// Duplicates returns the names registered by more than one instance.
func (p *Program) Duplicates() []string {
	cnt := map[string]int{}
	for _, i := range p.Instances {
		cnt[p.NameOf(i)]++
	}
	var out []string
	for _, k := range SortedKeys(cnt) {
		if cnt[k] > 1 {
			out = append(out, k)
		}
	}
	return out
}

// A decorator type "<T>+deco" is a struct that embeds *T and nothing else: every method of the
// component - interfaces, Init, AfterPropertiesSet, Order - is promoted and reaches the very
// component it decorates.
const decoSuffix = "+deco"

func IsDeco(name string) bool     { return strings.HasSuffix(name, decoSuffix) }
func DecoOf(name string) string   { return name + decoSuffix }
func DecoBase(name string) string { return strings.TrimSuffix(name, decoSuffix) }

// ProcByID returns the user post-processor with that id (nil if there is none).
func (p *Program) ProcByID(id string) *Proc {
	for _, pr := range p.Procs {
		if pr.ID == id {
			return pr
		}
	}
	return nil
}
