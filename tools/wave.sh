#!/bin/bash
# usage: tools/wave.sh <prop> [extra checks...]  — takes /tmp/wt-<prop>/_seeded/{1,2}, confirms them
# (tools/seeded_verify.sh) under the next free ids <prop>-<letter>, and runs <prop> (+ extra) against each.
p=$1; shift
letters=(a b c d e f g h i j k l m n o p q r s t u v w x y z)
for n in 1 2; do
  [ -f /tmp/wt-$p/_seeded/$n/patch.diff ] || { echo "$p/$n: no patch"; continue; }
  id=""
  for l in "${letters[@]}"; do [ -d /verif/seeded/$p-$l ] || { id=$p-$l; break; }; done
  /verif/tools/seeded_verify.sh /tmp/wt-$p $n $id | grep -v '^kept'
  if [ -d /verif/seeded/$id ]; then
    python3 -c "import json;print('   ',json.load(open('/verif/seeded/$id/meta.json')).get('summary','')[:300])"
    TMO=900 /verif/tools/mutant.sh /verif/seeded/$id/patch.diff $p "$@"
  fi
done
