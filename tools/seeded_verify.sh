#!/bin/bash
# usage: tools/seeded_verify.sh <agent-worktree> <n> <seeded-id>
# Confirms an independently written breaking change in a fresh scratch worktree of /repo:
# demo passes without the change; with the change the tree builds, the pinned suite passes
# and the demo fails. On success the change is kept as /verif/seeded/<seeded-id>/.
set -u
src=$1/_seeded/$2; id=$3; [ -d "$1/_seeded" ] || src=$1
export GOFLAGS=-mod=mod GOPROXY=off GOSUMDB=off
[ -f "$src/patch.diff" ] || { echo "no patch in $src"; exit 2; }
wt=/tmp/sv-$id
git -C /repo worktree remove --force $wt >/dev/null 2>&1
git -C /repo worktree add -q --detach $wt HEAD || exit 2
trap 'git -C /repo worktree remove --force '$wt' >/dev/null 2>&1' EXIT
mkdir -p $wt/demo_seeded_$2 && cp -r $src/demo/. $wt/demo_seeded_$2/
cd $wt
demo_without=FAIL; build=FAIL; suite=FAIL; demo_with=PASS
if go test -vet=off -count=1 ./demo_seeded_$2/... >/tmp/sv-$id.without.log 2>&1; then demo_without=PASS; fi
if git apply $src/patch.diff; then
  if go build ./... >/dev/null 2>&1; then build=PASS; fi
  ok=1; for i in 1 2; do go test -vet=off -count=1 $(go list ./... | grep -v demo_seeded_) >/tmp/sv-$id.suite.log 2>&1 || ok=0; done
  [ $ok = 1 ] && suite=PASS
  if go test -vet=off -count=1 ./demo_seeded_$2/... >/tmp/sv-$id.with.log 2>&1; then demo_with=PASS; else demo_with=FAIL; fi
else
  echo "patch does not apply"
fi
echo "$id: demo_without_change=$demo_without build=$build suite_with_change=$suite demo_with_change=$demo_with"
if [ $demo_without = PASS ] && [ $build = PASS ] && [ $suite = PASS ] && [ $demo_with = FAIL ]; then
  dst=/verif/seeded/$id
  mkdir -p $dst && cp $src/patch.diff $dst/ && rm -rf $dst/demo && cp -r $src/demo $dst/demo
  python3 - "$src/meta.json" "$dst/meta.json" <<'PY'
import json,sys
try: m=json.load(open(sys.argv[1]))
except Exception as e: m={"meta_error":str(e)}
m["confirmed_by_verifier"]={"scratch_worktree":"fresh git worktree of /repo HEAD","demo_without_change":"PASS","build_with_change":"PASS","suite_with_change":"PASS (2 runs)","demo_with_change":"FAIL","ran":"tools/seeded_verify.sh"}
json.dump(m,open(sys.argv[2],"w"),indent=1)
PY
  echo "kept as $dst"
else
  echo "NOT kept"; tail -5 /tmp/sv-$id.without.log /tmp/sv-$id.with.log 2>/dev/null | cut -c1-200
fi
rm -f /tmp/sv-$id.*.log
