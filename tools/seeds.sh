#!/bin/bash
# usage: tools/seeds.sh "<seeds>" [props...]  — quick tier of every check under several VERIF_SEED values on the
# unchanged tree; evidence/replays go to a scratch VERIF_DIR so that committed evidence is not overwritten.
export GOFLAGS=-mod=mod GOPROXY=off GOSUMDB=off GOTOOLCHAIN=local
seeds=$1; shift
props=${@:-C01 C02 C03 C04 C05 C06 C07 C08 C09 C10 C11 C12 C13 C14 C15 C18 C20}
out=$(mktemp -d /tmp/seeds-XXXXXX)
mkdir -p $out/verif/evidence $out/verif/replays; cp /verif/known_findings.json $out/verif/; ln -s /verif/sim $out/verif/sim
for s in $seeds; do for p in $props; do
  res=$(VERIF_SEED=$s VERIF_DIR=$out/verif /verif/bin/verif check $p --tier ${TIER:-quick} 2>&1); rc=$?
  echo "seed=$s $p exit=$rc $(echo "$res" | grep -c '^VIOLATION') viol $(echo "$res" | grep -E '^  C|^TROUBLE|self-assess' | head -3 | cut -c1-260 | tr '\n' '|')"
done; done
echo "replays kept in $out/verif/replays"
