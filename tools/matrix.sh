#!/bin/bash
# usage: tools/matrix.sh [out-file]   (runs every mutants/*.patch and seeded/*/patch.diff against the
# checks named in tools/matrix.tsv and records which check reports a violation)
VH=${VERIF_HOME:-$(cd "$(dirname "$0")/.." && pwd)}   # the /verif tree these tools belong to (a snapshot works too)
out=${1:-$VH/seeded/MATRIX.txt}
: > $out.tmp
while IFS=$'\t' read -r patch checks; do
  [ -z "$patch" ] && continue
  case "$patch" in \#*) continue;; esac
  # the Go build cache grows by every generated batch: trim it before the disk runs full
  avail_gb=$(df --output=avail -BG / | tail -1 | tr -dc 0-9)
  if [ "${avail_gb:-100}" -lt 30 ]; then GOFLAGS=-mod=mod GOTOOLCHAIN=local go clean -cache >/dev/null 2>&1; fi
  res=$(TMO=900 $VH/tools/mutant.sh $VH/$patch $checks 2>&1 | grep '^\[' | sed 's/ violation line(s)//' | tr '\n' ' ')
  echo -e "$patch\t$res" | tee -a $out.tmp
done < $VH/tools/matrix.tsv
mv $out.tmp $out
