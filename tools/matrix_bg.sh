#!/bin/bash
# usage (from a /verif snapshot, e.g. `vp run --timeout 5h -- tools/matrix_bg.sh`): builds the driver there and runs
# the whole matrix and the equivalence sweep against scratch worktrees of /repo; results land in seeded/ of the snapshot.
export GOFLAGS=-mod=mod GOPROXY=off GOSUMDB=off GOTOOLCHAIN=local
cd "$(dirname "$0")/.." || exit 2
(cd sim && go1.26.8 build -o ../bin/verif ./cmd/verif) || exit 2
tools/matrix.sh
tools/equiv.sh
