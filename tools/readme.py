#!/usr/bin/env python3
# Regenerates seeded/README.md from seeded/MATRIX.txt (written by tools/matrix.sh) and the meta.json files,
# and records in each meta.json which quick checks reported the change (detected_by / run_but_silent).
import json,os,re
rows=[]
for l in open('/verif/seeded/MATRIX.txt'):
    l=l.rstrip('\n')
    if not l: continue
    patch,res=(l.split('\t')+[''])[:2]
    caught=re.findall(r'\[(C\d\d)\] exit=1',res)
    silent=re.findall(r'\[(C\d\d)\] exit=0',res)
    trouble=re.findall(r'\[(C\d\d)\] exit=(?!0|1)(\d+)',res)
    name=patch.replace('/patch.diff','').replace('.patch','')
    summary=''
    if patch.startswith('seeded/'):
        mp='/verif/'+os.path.dirname(patch)+'/meta.json'
        try:
            m=json.load(open(mp))
            summary=m.get('summary','')
            m['detected_by']=caught; m['run_but_silent']=silent
            json.dump(m,open(mp,'w'),indent=1)
        except Exception as e:
            summary='(meta.json unreadable: %s)'%e
    rows.append((name,caught,silent,trouble,summary))
out=['# Breaking changes and which checks catch them','',
 '`seeded/<id>/` : written independently by sub-agents that saw only the property text and their own worktree (patch.diff, demo/, meta.json; each confirmed with tools/seeded_verify.sh: demo passes without the change; with it the tree builds, the pinned suite passes twice, the demo fails).',
 '`mutants/*.patch` : hand-written sensitivity patches. Measured with `tools/matrix.sh` (quick tier, VERIF_SEED=1, each patch applied to a scratch worktree, checks pointed at it through VERIF_REPO). Regenerate this file with `tools/readme.py`.','',
 '| change | caught by (quick) | run but silent | what it is |','|---|---|---|---|']
for name,c,s,t,summ in rows:
    out.append('| %s | %s | %s | %s |'%(name,' '.join(c) or '-',' '.join(s+['%s(exit %s)'%x for x in t]) or '-',summ[:260].replace('|','/').replace('\n',' ')))
n_s=sum(1 for r in rows if r[0].startswith('seeded')); c_s=sum(1 for r in rows if r[0].startswith('seeded') and r[1])
n_m=sum(1 for r in rows if r[0].startswith('mutants')); c_m=sum(1 for r in rows if r[0].startswith('mutants') and r[1])
out+=['','Seeded: %d of %d reported by at least one check. Hand-written mutants: %d of %d. Not reported: %s'%(c_s,n_s,c_m,n_m,', '.join(r[0] for r in rows if not r[1]) or '-'),'']
open('/verif/seeded/README.md','w').write('\n'.join(out))
print(out[-2])
