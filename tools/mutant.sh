#!/bin/bash
# usage: tools/mutant.sh <patch-file> <property> [<property>...]
# Applies the patch to a fresh scratch worktree of /repo (never to /repo itself), optionally
# runs the pinned suite there (SUITE=1), runs the quick checks against it through VERIF_REPO,
# and removes the worktree. Evidence/replay files go to a scratch VERIF_DIR copy so that the
# committed evidence is not overwritten.
VH=${VERIF_HOME:-$(cd "$(dirname "$0")/.." && pwd)}   # the /verif tree these tools belong to (a snapshot works too)
set -u
patch=$(realpath "$1"); shift
export GOFLAGS=-mod=mod GOPROXY=off GOSUMDB=off
wt=$(mktemp -d /tmp/mut-XXXXXX)
rmdir $wt
git -C /repo worktree add -q --detach $wt HEAD || exit 2
out=$(mktemp -d /tmp/mutout-XXXXXX)
trap 'git -C /repo worktree remove --force '$wt' >/dev/null 2>&1; rm -rf '$out EXIT
( cd $wt && git apply "$patch" ) || { echo "patch does not apply"; exit 2; }
if [ "${SUITE:-0}" = 1 ]; then
  if ( cd $wt && go test -vet=off -count=1 ./... >$out/suite.log 2>&1 ); then echo "suite: PASS"; else echo "suite: FAIL"; grep -E '^(---|FAIL)' $out/suite.log | head -5; fi
fi
mkdir -p $out/verif/evidence $out/verif/replays
cp $VH/known_findings.json $out/verif/
ln -s $VH/sim $out/verif/sim
for p in "$@"; do
  res=$(VERIF_REPO=$wt VERIF_DIR=$out/verif VERIF_NO_FRESH_REPLAY=${FRESH:-1} timeout ${TMO:-900} $VH/bin/verif check "$p" 2>&1); rc=$?
  echo "[$p] exit=$rc $(echo "$res" | grep -c '^VIOLATION') violation line(s)"
  echo "$res" | grep -E '^  C|^TROUBLE|^worker' | cut -c1-300 | awk '{k=$1; c[k]++; if (c[k]<=1) print}' | head -6
done
