#!/bin/bash
# usage: tools/mutant.sh <patch-file> <property> [<property>...]
# Applies the patch to /repo, optionally runs the pinned suite, runs the quick checks, reverts.
set -u
patch=$(realpath "$1"); shift
cd /repo || exit 2
if [ -n "$(git status --porcelain)" ]; then echo "repo dirty, refusing"; exit 2; fi
git apply "$patch" || { echo "patch does not apply"; exit 2; }
trap 'git -C /repo checkout -- . ; git -C /repo clean -fdq' EXIT
if [ "${SUITE:-0}" = 1 ]; then
  if go test -mod=mod -vet=off -count=1 ./... >/tmp/mutant-suite.log 2>&1; then echo "suite: PASS"; else echo "suite: FAIL"; grep -E '^(---|FAIL)' /tmp/mutant-suite.log | head -5; fi
fi
cd /verif
for p in "$@"; do
  out=$(VERIF_NO_FRESH_REPLAY=${FRESH:-1} ./bin/verif check "$p" 2>&1); rc=$?
  echo "[$p] exit=$rc $(echo "$out" | grep -c '^VIOLATION') violation line(s)"
  echo "$out" | grep -E '^  C' | cut -c1-300 | awk '{k=$1; c[k]++; if (c[k]<=1) print}' | head -6
done
