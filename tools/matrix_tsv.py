#!/usr/bin/env python3
# Adds every seeded/<id>/patch.diff and every non-EQ mutants/*.patch that tools/matrix.tsv does not list yet
# (property of the id plus the usual neighbouring checks).
import os,re
lines=open('/verif/tools/matrix.tsv').read().split('\n')
have={l.split('\t')[0] for l in lines if l and not l.startswith('#')}
extra={'C01':['C03'],'C02':['C10'],'C03':['C01'],'C04':['C01'],'C05':['C02'],'C06':['C04'],'C07':['C02'],'C08':['C10'],'C09':['C18'],'C10':['C08','C02'],'C12':['C13','C15'],'C13':['C12'],'C15':['C12'],'C20':['C09']}
add=[]
for d in sorted(os.listdir('/verif/seeded')):
    if re.match(r'C\d\d-[a-z]$',d):
        p='seeded/%s/patch.diff'%d
        if p not in have:
            prop=d[:3]
            add.append(p+'\t'+' '.join([prop]+extra.get(prop,[])))
for f in sorted(os.listdir('/verif/mutants')):
    if f.endswith('.patch') and not f.startswith('EQ-'):
        p='mutants/'+f
        if p not in have:
            add.append(p+'\t'+f[:3])
print('\n'.join(add))
body=[l for l in lines if l]
hdr=[l for l in body if l.startswith('#')]
rows=sorted([l for l in body if not l.startswith('#')]+add, key=lambda l:(0 if l.startswith('seeded') else 1, l))
open('/verif/tools/matrix.tsv','w').write('\n'.join(hdr+rows)+'\n')
