#!/usr/bin/env python3
"""Regenerates /verif/MANIFEST.json from the table below and validates it."""
import json, subprocess, sys, os

ENV = "GOFLAGS=-mod=mod GOPROXY=off GOSUMDB=off GOTOOLCHAIN=local"
SETUP = f"cd /verif/sim && {ENV} go1.26.8 build -o /verif/bin/verif ./cmd/verif"

def hooks_commits():
    out = subprocess.run(["git", "-C", "/repo", "log", "--format=%H %s"], capture_output=True, text=True).stdout
    return [l.split()[0] for l in out.splitlines() if "verif hook" in l][::-1]

STARTSIM = "deterministic simulation (startsim): whole App.Run in a testing/synctest bubble, seeded serial scheduler, order-permuting registry decorators, generated Go programs; seeded search over programs x schedules"

CHECKS = {
 "C01": dict(cat="exploration", engine="startsim", ref="5/C01",
   text="Seeded search over generated dependency graphs (fan-in, cycles, slices, by-name / qualified edges; half with substituting post-processors) x schedules (registration order, registry enumeration orders, property-group order, scan-phase interleaving). After every successful start each observed pointer in every holder and every by-name lookup is mapped to a component version; one version per component is demanded. Sampling evidence, not proof.",
   note="identity is observed black-box by reflection over the generated components; synctest, sync.Map, reflect trusted",
   technique=STARTSIM + "; oracle: pointer identity per component"),
 "C02": dict(cat="exploration", engine="startsim", ref="5/C02",
   text="Complete corpus of small digraphs (all digraphs over <=2 components in quick, <=3 in thorough; every rotation of rings of length 2..5 for four edge kinds) plus seeded random graphs, each under K schedules. Oracle: termination within the scheduler's step budget and the driver's watchdog; must-succeed programs (resolver model) succeed with every required point holding an admissible target; self-only points error / stay empty, never wired to the holder.",
   note="resolver model written from the statements; a worker that dies or stalls is attributed to the announced program and reported as non-termination",
   technique=STARTSIM + "; oracle: start-outcome + resolver reference model, step budget"),
 "C06": dict(cat="exploration", engine="startsim", ref="5/C06",
   text="Seeded populations of providers/consumers under K schedules; soundness of every populated point on every run (also failed ones), completeness and exactly-once of slices and non-emptiness of single points on successful runs, against the resolver reference model. Points typed any / []any and selected by type are included (the container's own components are candidates too; a unique Primary of the program wins).",
   note="slice element order is not asserted", technique=STARTSIM + "; oracle: resolver reference model"),
 "C07": dict(cat="exploration", engine="startsim", ref="5/C07",
   text="Seeded programs with by-name points (custom / default / absent names, names of incompatible type, required and optional, pointer / interface / any fields, rare duplicate registrations) under K schedules; the point must hold exactly the instance registered under the name; absent/incompatible => error (no panic) when required, untouched when optional; duplicates rejected.",
   note="duplicate rejection accepted as panic or error", technique=STARTSIM + "; oracle: resolver reference model for named points"),
 "C08": dict(cat="exploration", engine="startsim", ref="5/C08",
   text="Seeded populations with qualifier / Primary / naming attributes; holders with 1-4 mixed points (optional points without candidate placed before others, func- and wire-tagged points whose relative order depends on the schedule). Qualifier soundness on every run, unique-Primary / unique-unnamed ranking on successful runs, per field.",
   note="several competing Primary components are treated as don't-care", technique=STARTSIM + "; oracle: resolver reference model per field"),
 "C03": dict(cat="exploration", engine="startsim", ref="5/C03",
   text="Seeded cyclic and acyclic programs plus a wrap plan (who is substituted, at which callback: early reference / before init / after init / before instantiation; consistently or with different substitutes; 1-2 substituting processors of all order classes) x K schedules (who asks first). If Run succeeded, every holder - including those that were handed an early reference - and the by-name lookup hold the one published version. Failure is always admissible.",
   note="that consistent substitution must succeed is not asserted", technique=STARTSIM + "; fault kind: component substitution by post-processors; oracle: pointer identity per component"),
 "C04": dict(cat="fault_enumeration", engine="startsim+regsim", ref="5/C04",
   text="Three sources of histories checked call by call against a small reference state machine of the three-level cache: (1) regsim drives the real registry directly with generated creation trees and enumerates every failure position of every tree, then continues with lookups, direct get-or-creates and re-creates; (2) a tracer on every real start, fault-free and with every discovered callback site failing (transient and permanent), (3) GetComponentByName for every component on the same App after each failed start (black box). Complete per explored tree / start; trees and programs are sampled by seed. regsim factories may publish their own name themselves and may hand back what they built together with the error. Since wave 18 regsim also asks for the creation of names that are in creation (refused, the factory never runs) and lets factories publish an interim object under their own name; startsim processors may look components up from PostProcessBeforeInstantiation.",
   note="the tracer is a pass-through decorator installed through hook H1", technique="deterministic simulation with fault injection: enumerated creation failures on generated creation trees (regsim) and on real starts (startsim); oracle: executable reference state machine of the singleton cache"),
 "C05": dict(cat="exploration", engine="startsim", ref="5/C05",
   text="Seeded DAGs / diamonds / cycles with tails, lazy-eager mixes and 1-4 observing post-processors of all classes, under K schedules. Event-log checker: before* < AfterPropertiesSet < Init < after*, each at most once on any run and exactly once on successful ones; wiring and configuration snapshot at the first before-init callback equals the final population; when Init(c) runs every dependency that does not depend back on c has finished; lazy components have a lifecycle iff a created component holds or names them. A few discovered callback sites (early-reference callbacks first) are also made to fail in turn: once per creation attempt and in lifecycle order is judged on every run. Since wave 18 substitutes may be decorators that embed the component (its Init / AfterPropertiesSet are the component's own), and instantiation-aware processors may look components up before instantiation. After the start the harness queries by interface and looks every component up by name: a query creates what it selects and what that needs, no other LazyInit component; every non-lazy instantiation-aware processor is asked exactly once after a component was instantiated.",
   note="dependencies-first is judged on the observed wiring graph; substituting programs are exempt", technique=STARTSIM + "; oracle: event-log lifecycle checker"),
 "C09": dict(cat="fault_enumeration", engine="startsim", ref="5/C09",
   text="Per generated program and explored schedule every callback site discovered by the fault-free run (Init, AfterPropertiesSet, every post-processor callback for every component including the container's own) is made to fail singly - exhaustive per (program, schedule) - plus sampled pairs; unsatisfiable required / optional points are judged by the start-outcome model. Oracle: Run returns an error, no panic, terminates, no runner invoked; optional-only shortfalls never fail and leave the field empty. A share of the substituting family is included (a failure inside a lookup whose caller copes with the error is not Run's to report).",
   note="a fault counts only if it fired in that run", technique=STARTSIM + " + exhaustive single-fault injection at discovered callback sites; oracle: clean-failure checker + start-outcome model"),
 "C12": dict(cat="exploration", engine="startsim", ref="5/C12",
   text="Seeded programs with post-processors, runners (and simulated loaders) of all three order classes, Order values with ties / negatives / extremes; the arrival order at the (unstable) sorter is permuted by the schedule. Observed callback sequences must be a contract order (priority-ordered < ordered < unordered, Order non-decreasing in the first two groups), every participant exactly once. A processor may replace the component of another processor by an object that is no processor (the other keeps taking part), runners may hold the App and settle their order in Init.",
   note="order among equal Order values / unordered participants is not asserted", technique=STARTSIM + "; oracle: ordering-contract checker on observed callback sequences"),
 "C13": dict(cat="fault_enumeration", engine="startsim", ref="5/C13",
   text="Seeded programs with 0-6 runners (lazy ones included) under K schedules; on the first three schedules every runner in turn fails (exhaustive per explored schedule). Oracle: every runner exactly once on success, nothing is initialised after the first runner started, contract order, a failing runner makes Run fail and no later runner is invoked.",
   note="", technique=STARTSIM + " + exhaustive runner-failure injection; oracle: event-log checker"),
 "C14": dict(cat="exploration", engine="closesim", ref="5/C14",
   text="After a successful Run with 0-12 closers App.Close runs inside the bubble. Hook H3 parks every goroutine App.Close starts before it invokes its closer; slow closers park again inside Close(), fast ones return at once; a seed-chosen subset fails. The scheduler releases one task at a time in a seeded order. Invariants at every quiescent point: all closer goroutines exist before anything is released, a released closer is always invoked whatever the others did, Close has not returned while any closer is pending; at the end every closer ran exactly once and Close returned (bounded liveness, no wall clock). Since wave 14 the scheduler may also let seconds of simulated time (the bubble's clock) pass while closers are parked - a timer inside the container would fire - and the shutdown that follows a start which failed because a runner returned an error is judged too (runners that are closers as well). Since wave 18 also: after a start that failed on a passing fault inside a closer's initialisation the application calls App.Refresh() again on the same App and then shuts down.",
   note="synctest quiescence detection trusted", technique="deterministic simulation (closesim): App.Close in a testing/synctest bubble, closers parked at start and inside Close, seeded release order and failing subset; invariants at every quiescent point"),
 "C11": dict(cat="exploration", engine="startsim", ref="5/C11",
   text="Twin programs - every tagged field declared directly vs the same fields inside anonymous, untagged, by-value embedded structs (depth 1-3, exported and unexported carriers) - run under identical picks: same outcome, same wiring on every non-tied point, same bound configuration, same tag records. Frame fields of six kinds carry sentinels that must survive every run. 0-2 custom tag scanners (parked and interleaved inside the parallel scanning phase) must receive exactly the exported fields carrying their tag, with value and arguments.",
   note="schedule dependence is weak by design (each scanner goroutine works on its own definition); dominated by program generation, claimed for the phase in which scanning runs concurrently", technique=STARTSIM + "; oracle: twin equivalence, frame sentinels, recording tag processor"),
 "C15": dict(cat="exploration", engine="startsim", ref="5/C15",
   text="Seeded source sets (raw documents, real FileLoader on files written into the run's scratch directory, real ArgsLoader over a simulated argv, simulated loaders of all order classes) with overlapping and disjoint key trees, added through every option in a generated order, with rare injected source faults. Oracle: reference deep merge in contract order (all orders the contract admits), compared with App.Get for every leaf and with a prefix-bound struct. A share of the programs has 13-24 sources of mostly one rank, command-line sources that blank a key, and simulated loaders that settle their order only before the second initialisation. Should a start go on although an added source failed to load, the intact sources must still all be merged.",
   note="precedence is judged on fault-free source sets; viper is trusted for YAML decoding", technique="deterministic simulation (startsim, configuration slice) with injected source faults; oracle: reference merge model"),
 "C18": dict(cat="exploration", engine="startsim", ref="5/C18",
   text="Seeded components with configuration fields from a fixed menu (placeholders, defaults, prop shorthand, #{${a}+${b}}, #{${a}*${b}}, prefix-bound values, literals; optional validate constraints) next to user instantiation-aware processors of all order classes; the schedule permutes the arrival order of all processors at the unstable sorter. Oracle: a small evaluator of the menu; Run fails exactly when a bound value violates its constraint or a required value is missing. The menu also has comparison, conjunction, conditional, three-operand, remainder, quotient (float) and string-concatenation expressions (also with blanks at the end), two-default expressions, gt/lt/eq/ne/len constraints, structs whose constraints sit behind a pointer, holders that name their section per instance, and scalar fields the application preset.",
   note="narrow value domain by design: the biconditional over arbitrary values and expressions is input generation, outside this technique", technique="deterministic simulation (startsim, configuration slice); oracle: menu evaluator (placeholder -> expression -> bind -> validate)"),
 "C20": dict(cat="exploration", engine="racesim+linsim", ref="5/C20",
   text="racesim: generated programs with 8-60 components, 1-3 custom scanners and closers run with the scheduler in parallel mode under the Go race detector; several scanner invocations / closers fail at the same time; zero reports demanded. linsim: the concurrent utilities compiled from a scratch copy with a yield point before every statement; seeded single-runner interleavings of 2-4 clients; porcupine linearizability check against a sequential map / set, with Range as one step and with Range interleavable; plus the plain 'two callers never both win' invariant. linsim also instruments the default definition registry (GetMetaOrRegister / GetMetaByName / RegisterMeta / GetMetas against the sequential map; locks in instrumented code are taken cooperatively, a state in which every live client waits for a lock is a violation of its own); racesim runs programs with an odd index under the library's own logger, and failing closers return an error object whose Error() reads a word the application writes once App.Close has returned. Enumerations (Range, ToArray, GetMetas) that overlap mutations are additionally judged key by key (a mapping the key had at some moment of the call) and must hand out only what somebody stored, every key once. racesim opens every program with a stress phase on the utilities themselves (four goroutines released together run seeded operation lists on one sync2.Map, one ConcurrentSets and one generic concurrent set) with the race detector as the oracle.",
   note="the race detector's happens-before analysis, porcupine and Go's sync.Map are trusted; each call into sync.Map is one atomic step", technique="deterministic simulation: parallel-wave release under the race detector (racesim) + cooperative scheduling at AST-inserted yield points with porcupine (linsim)"),
 "C10": dict(cat="exploration", engine="startsim", ref="5/C10",
   text="Metamorphic sweep: each generated program is started under K schedules (canonical, reversed, random: registration permutation x three enumeration orders x scan interleaving). Same success/failure for programs without tied points, same target on every non-tied point, agreement with the start-outcome model where it has a verdict. A share of the programs carries a custom scanner that refuses some definitions under every schedule (the start must be refused whatever the interleaving of the scanning phase), and the batches open with rings in which one member is substituted (with and without a holder outside the ring).",
   note="error texts are never compared; with substitution only cross-run stability is demanded", technique=STARTSIM + "; oracle: cross-schedule comparison (metamorphic)"),
}

NA = [
 ("C16", "pure function of tag text x configuration: no schedule, fault, callback or history can change its result and its non-termination is input-caused; not a simulation target (DESIGN.md section 6)"),
 ("C17", "pure function of configuration value x field type along two fixed code paths; nothing for a scheduler or fault injector to own (DESIGN.md section 6)"),
 ("C19", "pure parsing function of one string (DESIGN.md section 6)"),
]
PENDING = {
}

def main():
    checks = []
    for pid in sorted(CHECKS):
        c = CHECKS[pid]
        checks.append({
            "property_id": pid,
            "quick_cmd": f"./bin/verif check {pid} --tier quick",
            "thorough_cmd": f"./bin/verif check {pid} --tier thorough",
            "evidence_file": f"/verif/evidence/{pid}.json",
            "replay_cmd_template": "./bin/verif replay {path}",
            "engine": c["engine"],
            "level_claimed": {"category": c["cat"], "text": c["text"], "design_ref": "DESIGN.md section " + c["ref"]},
            "level_note": c["note"],
            "technique": c["technique"],
        })
    na = [{"property_id": p, "reason": r} for p, r in NA]
    for p in sorted(PENDING):
        if p not in CHECKS:
            na.append({"property_id": p, "reason": "not claimed yet: " + PENDING[p]})
    m = {
        "version": 1,
        "setup_cmd": SETUP,
        "hooks": {
            "guard": "verif",
            "enable": "-tags verif (every check builds its worker binary with go1.26.8 test -c -tags verif against /repo's working tree)",
            "baseline_off_cmd": "cd /repo && go test -mod=mod -vet=off -count=1 ./...",
            "source_commits": hooks_commits(),
            "add_only": True,
        },
        "engines": [
            {"name": "startsim", "path": "/verif/sim/engine", "serves_properties": sorted(p for p in CHECKS if "startsim" in CHECKS[p]["engine"] or CHECKS[p]["engine"] == "closesim"),
             "kind_free_text": "whole container life inside a testing/synctest bubble; seeded Chooser decides every enumeration order, registration order and which parked goroutine runs; generated Go programs; closesim is its Close phase"},
            {"name": "racesim", "path": "/verif/sim/engine (parallel mode)", "serves_properties": ["C20"],
             "kind_free_text": "startsim harness built with -race, scheduler releases parked tasks in waves; race detector as oracle"},
            {"name": "linsim", "path": "/verif/sim/engine/linsim.go", "serves_properties": ["C20"],
             "kind_free_text": "go/ast-inserted yield points in a scratch copy of util/sync2 and util/list, single-runner seeded scheduling, porcupine"},
            {"name": "regsim", "path": "/verif/sim/engine/regsim.go", "serves_properties": ["C04"],
             "kind_free_text": "generated creation trees driven directly against the real singleton cache, every failure position enumerated"},
        ],
        "checks": checks,
        "not_applicable": na,
        "notes": "All checks honour VERIF_SEED and VERIF_TIER; exit 0 held / 1 violation (VIOLATION line + replay file) / 2 build-watchdog-self-assessment trouble. Thorough budget: VERIF_BUDGET_S (default 1200 s). Known findings: /verif/known_findings.json.",
    }
    json.dump(m, open("/verif/MANIFEST.json", "w"), indent=1)
    try:
        import jsonschema
        jsonschema.validate(m, json.load(open("/root/.vp/MANIFEST.schema.json")))
        print("MANIFEST.json valid;", len(checks), "checks,", len(na), "not claimed")
    except ImportError:
        print("jsonschema not available; written without validation")

if __name__ == "__main__":
    main()
