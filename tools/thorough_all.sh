#!/bin/bash
# usage: tools/thorough_all.sh <budget_s> [props...]; runs from the directory it is started in (a /verif snapshot or /verif)
export GOFLAGS=-mod=mod GOPROXY=off GOSUMDB=off GOTOOLCHAIN=local
export VERIF_DIR=$PWD
budget=$1; shift
props=${@:-C01 C02 C03 C04 C05 C06 C07 C08 C09 C10 C11 C12 C13 C14 C15 C18 C20}
(cd sim && go1.26.8 build -o ../bin/verif ./cmd/verif) || exit 2
mkdir -p evidence replays
for p in $props; do
  VERIF_BUDGET_S=$budget ./bin/verif check $p --tier thorough 2>&1 | grep -E '^(VIOLATION|KNOWN|C[0-9]+:|  C[0-9]+/|TROUBLE|self-assess|worker)' | cut -c1-500
  echo "exit=${PIPESTATUS[0]} $p"
done
