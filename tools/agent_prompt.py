#!/usr/bin/env python3
# usage: tools/agent_prompt.py <property id>  - prints the prompt for a seeding sub-agent (the agent gets
# the property text, its own scratch worktree /tmp/wt-<id>, and one-line summaries of earlier seeded
# changes of that property so that it produces something different; nothing else from /verif).
import sys, json, glob, os
pid=sys.argv[1]
rec=[json.loads(l) for l in open('/verif/properties.jsonl') if l.strip()]
r=[x for x in rec if x['id']==pid][0]
prop="%s: %s\n\n%s\n\nQuantified over: %s\n" % (r['id'], r['title'], r['statement'], r['quantifier']['text'])
earlier=[]
for m in sorted(glob.glob(f'/verif/seeded/{pid}-*/meta.json')):
    try:
        earlier.append('  - '+json.load(open(m)).get('summary','')[:260])
    except Exception:
        pass
earlier_txt=''
if earlier:
    earlier_txt='\nEarlier rounds already produced the following changes for this property; yours must be of a DIFFERENT kind (other code site or other mechanism):\n'+'\n'.join(earlier)+'\n'
print(f"""You are helping to test a verification effort for the Go library go-kid/ioc (a Spring-style runtime dependency-injection container: tag-driven wiring, post-processor lifecycle, three-level singleton cache for circular references, config value binding).

You have your own scratch git worktree of the repository at /tmp/wt-{pid} (detached HEAD). Work ONLY inside /tmp/wt-{pid}. Never touch /repo, never read or touch /verif. Do NOT use `git stash` (the stash is shared between all worktrees of the repository and other agents work in sibling worktrees at the same time): to set a change aside, save `git diff` to a file and use `git apply` / `git apply -R` / `git checkout -- .`. The sandbox has no network; for every go command use:
  export GOFLAGS=-mod=mod GOPROXY=off GOSUMDB=off
(the default `go` on PATH is the right toolchain; the existing suite runs with `go test -vet=off -count=1 ./...` from the worktree root and must pass).

Here is a semantic property the library is supposed to satisfy:

---
{prop}---
{earlier_txt}
Your task (this is a further, independent round: be creative and avoid the most obvious one-line mutation; prefer defects that need an unusual sequence of operations, a particular interleaving / iteration order, a failure at a particular point, an unusual but legal input shape, or two cooperating code sites): produce TWO DIFFERENT realistic changes ("seeded defects") to the library source in the worktree, each of which
  (a) still compiles,
  (b) still passes the complete existing test suite unchanged (`go test -vet=off -count=1 ./...`), run it at least twice since some tests are order-randomised,
  (c) breaks the property above, and
  (d) needs something SPECIFIC to manifest - NOT something that any ordinary use of the library would expose at once.
The changes should look like plausible maintenance mistakes or "optimisations" (a reordered statement, a dropped cleanup, a cache shortcut, an off-by-one, a condition narrowed or widened), small (a few lines), in non-test library code (not in files guarded by the build tag `verif`, do not remove or move the calls `verifScanYield(...)`, `verifCloseYield(...)`, `verifOrderProperties(...)`; not in unittest/, not in *_test.go).

For each change also write a demonstration: a small Go test file (put it in a NEW directory inside the worktree such as demo_seeded_1/demo_test.go, package name of your choice, importing github.com/go-kid/ioc/... packages) that FAILS with your change applied and PASSES on the unmodified code. If the manifestation depends on a random iteration order, make the demonstration loop enough times (or control the order through the public seams, e.g. app.SetRegistry / custom container.SingletonRegistry, registration order, component names) so that it fails reliably with the change and passes reliably without it.

Deliverables, for change n in (1, 2), in /tmp/wt-{pid}/_seeded/n/ :
  - patch.diff : `git diff` of ONLY the library change (no demo files), applicable with `git apply` at the worktree's HEAD
  - demo/ : the demonstration test directory (copy of the demo test file(s))
  - meta.json : {{"property": "{pid}", "summary": "...one sentence...", "files": [...], "needs_to_manifest": "...what specific condition is needed...", "demo_cmd": "go test -vet=off -count=1 ./demo_seeded_n/", "suite_passes_with_change": true/false, "demo_fails_with_change": true/false, "demo_passes_without_change": true/false}}
Verify (b), and both directions of the demonstration yourself, and record the truth in meta.json. When you are done with change 1, revert the library change (git checkout -- . ; keep _seeded/) before making change 2, so that the two patches are independent. At the very end leave the worktree's tracked files unmodified (git checkout -- .), with only _seeded/ (and optionally demo dirs) as untracked additions.

Report back in a few lines: for each change the summary, the files touched, and whether all verifications held.""")
