#!/bin/bash
# usage: tools/equiv.sh  — runs every quick check against every behaviour-preserving patch
# (mutants/EQ-*.patch); none may raise an alarm.
VH=${VERIF_HOME:-$(cd "$(dirname "$0")/.." && pwd)}   # the /verif tree these tools belong to (a snapshot works too)
out=$VH/seeded/EQUIVALENT.txt
: > $out.tmp
for m in $VH/mutants/EQ-*.patch; do
  # the Go build cache grows by every generated batch: trim it before the disk runs full
  avail_gb=$(df --output=avail -BG / | tail -1 | tr -dc 0-9)
  if [ "${avail_gb:-100}" -lt 30 ]; then GOFLAGS=-mod=mod GOTOOLCHAIN=local go clean -cache >/dev/null 2>&1; fi
  res=$(SUITE=1 TMO=900 $VH/tools/mutant.sh $m C01 C02 C03 C04 C05 C06 C07 C08 C09 C10 C11 C12 C13 C14 C15 C18 C20 2>&1 | grep -E '^\[|^suite' | sed 's/ violation line(s)//' | tr '\n' ' ')
  echo -e "$(basename $m)\t$res" | tee -a $out.tmp
done
mv $out.tmp $out
